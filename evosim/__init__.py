"""evosim: deterministic lifecycle simulation with fault injection for
django-evolution.  See /verif/DESIGN.md."""
