from evosim.cli import main
import sys
sys.exit(main())
