"""Child side: one real process per run step.

`run_request(req)` is called in a freshly forked process (see zygote.py).  It
installs the seams (clock, SQL wrapper, signal receivers), configures Django
for the generated project, executes one operation and streams the trace as
line-delimited JSON to req['trace'].  Nothing survives the process.
"""
import datetime
import io
import json
import os
import sys
import traceback

# tables written outside the evolution batch: version / label / migration
# bookkeeping and the post-migrate signal handlers of contrib apps
BOOKKEEPING_TABLES = ('django_project_version', 'django_evolution',
                      'django_migrations', 'django_content_type',
                      'auth_permission')


import re as _re
_SAVEPOINT_RE = _re.compile(r'\bs\d{6,}_x(\d+)\b')


class Trace(object):
    def __init__(self, path, scrub):
        self.fd = os.open(path, os.O_WRONLY | os.O_CREAT | os.O_APPEND, 0o644)
        self.n = 0
        self.scrub = scrub

    def emit(self, ev):
        ev['n'] = self.n
        self.n += 1
        line = json.dumps(ev, sort_keys=True, default=repr)
        for a, b in self.scrub:
            line = line.replace(a, b)
        # Django names savepoints after the thread id: s<ident>_x<n>
        line = _SAVEPOINT_RE.sub(r's<T>_x\1', line)
        os.write(self.fd, (line + '\n').encode('utf-8'))


def classify(sql):
    s = sql.lstrip().upper()
    if s.startswith(('BEGIN', 'COMMIT', 'ROLLBACK', 'SAVEPOINT', 'RELEASE')):
        return 'txn'
    if s.startswith('PRAGMA'):
        return 'pragma'
    if s.startswith('SELECT'):
        return 'read'
    return 'write'


def is_bookkeeping(sql):
    for t in BOOKKEEPING_TABLES:
        if '"%s"' % t in sql:
            return True
    return False


class Seams(object):
    """SQL wrapper + fault injector + signal recorder sharing one sequence."""

    def __init__(self, trace, fault, scope='evo', render=False):
        self.render = render
        self._qp = {}
        self.trace = trace
        self.fault = fault or None
        self.scope = scope
        self.eligible = 0
        self.armed = not (fault or {}).get('after_evolving', True)
        self.fired = False
        self.in_evolve = False

    def make_wrapper(self, alias):
        def wrapper(execute, sql, params, many, context):
            from django.db.utils import OperationalError
            kind = classify(sql)
            ev = {'t': 'sql', 'alias': alias, 'sql': sql,
                  'params': _norm_params(params), 'k': kind}
            if many:
                ev['many'] = True
            if self.render and kind != 'txn':
                ev['rendered'] = self._rendered(alias, sql, params)
            book = kind == 'write' and is_bookkeeping(sql)
            if book:
                ev['book'] = True
            f = self.fault
            inj = None
            if kind == 'write' and self.armed:
                scope = (f or {}).get('scope') or self.scope
                ok = ((scope == 'evo' and not book) or
                      (scope == 'book' and book) or scope == 'all')
                if ok and (f or {}).get('alias', alias) == alias:
                    ev['e'] = self.eligible
                    if f and not self.fired and self.eligible == f['k']:
                        inj = f['kind']
                        self.fired = True
                    self.eligible += 1
            if inj:
                ev['inj'] = inj
            self.trace.emit(ev)
            if inj == 'crash':
                os._exit(70)
            if inj == 'sql_error':
                raise OperationalError('evosim: injected failure')
            return execute(sql, params, many, context)
        return wrapper

    def _rendered(self, alias, sql, params):
        """The statement with parameters substituted by the backend's own
        quoting rule (the one the SQL preview uses)."""
        try:
            qp = self._qp.get(alias)
            if qp is None:
                from django_evolution.db import EvolutionOperationsMulti
                qp = EvolutionOperationsMulti(alias).get_evolver(
                ).quote_sql_param
                self._qp[alias] = qp
            if params:
                return sql % tuple(qp(p) for p in params)
            return sql
        except Exception as e:
            return '<render error %r>' % (e,)

    def connect_signals(self):
        from django_evolution import signals as S

        def rec(name):
            def receiver(sender=None, **kw):
                p = {}
                if 'task' in kw:
                    p['app'] = kw['task'].app_label
                if 'evolutions' in kw:
                    p['labels'] = [e.label for e in kw['evolutions']]
                if 'app_label' in kw:
                    p['app'] = kw['app_label']
                if 'model_names' in kw:
                    p['models'] = list(kw['model_names'])
                if 'migration' in kw:
                    p['migration'] = [kw['migration'].app_label,
                                      kw['migration'].name]
                if 'exception' in kw:
                    p['exc'] = type(kw['exception']).__name__
                if name == 'evolving':
                    self.armed = True
                    self.in_evolve = True
                self.trace.emit({'t': 'sig', 'name': name, 'p': p})
            return receiver
        self._receivers = []
        for name in ('evolving', 'evolved', 'evolving_failed',
                     'applying_evolution', 'applied_evolution',
                     'creating_models', 'created_models',
                     'applying_migration', 'applied_migration'):
            r = rec(name)
            self._receivers.append(r)
            getattr(S, name).connect(r, weak=False)


def _norm_params(params):
    if params is None:
        return None
    try:
        return [p if isinstance(p, (int, float, str, type(None), bool))
                else repr(p) for p in params]
    except TypeError:
        return repr(params)


def install_clock(req):
    base = datetime.datetime.fromisoformat(req.get(
        'clock', '2020-01-01T00:00:00+00:00'))
    tick = datetime.timedelta(microseconds=req.get('clock_tick_us', 1))
    state = {'n': 0}

    def fake_now():
        v = base + tick * state['n']
        state['n'] += 1
        return v
    import django.utils.timezone
    django.utils.timezone.now = fake_now
    import django.db.migrations.recorder as rec
    rec.now = fake_now
    return state


def configure(req, with_evolution=True):
    from django.conf import settings
    apps = ['django.contrib.contenttypes']
    if with_evolution:
        apps.append('django_evolution')
    apps += list(req['installed_apps'])
    dbs = {}
    for alias in sorted(req['databases']):
        dbs[alias] = {'ENGINE': 'django.db.backends.sqlite3',
                      'NAME': req['databases'][alias]}
    kw = dict(INSTALLED_APPS=apps, DATABASES=dbs, USE_TZ=True,
              DEFAULT_AUTO_FIELD='django.db.models.AutoField',
              SECRET_KEY='x', LOGGING_CONFIG=None)
    if req.get('router'):
        kw['DATABASE_ROUTERS'] = ['router.R']
    kw.update(req.get('settings') or {})
    settings.configure(**kw)
    import django
    django.setup()


def run_request(req):
    sys.path.insert(0, req['project_dir'])
    sys.path.insert(0, req.get('repo', '/repo'))
    sys.dont_write_bytecode = True
    import warnings
    warnings.simplefilter('ignore')
    scrub = [(req['project_dir'], '<P>')]
    # relative renderings of the workspace path (evolve --hint --write prints
    # os.path.relpath of the file it wrote)
    scrub_tail = os.path.basename(os.path.dirname(req['project_dir']))
    for alias in req['databases']:
        scrub.append((os.path.dirname(req['databases'][alias]), '<D>'))
    if scrub_tail:
        scrub.append((scrub_tail, '<W>'))
    trace = Trace(req['trace'], scrub)
    try:
        install_clock(req)
        op = req['op']
        handler = OPS[op]
        handler(req, trace)
    except SystemExit:
        raise
    except BaseException as e:
        trace.emit({'t': 'exit', 'status': 'harness_error',
                    'exc': type(e).__name__, 'msg': str(e),
                    'tb': traceback.format_exc()})
        os._exit(3)
    os._exit(0)


# ---------------------------------------------------------------------------
# operations
# ---------------------------------------------------------------------------

def _with_seams(req, trace):
    from django.db import connections
    seams = Seams(trace, req.get('fault'), req.get('scope', 'evo'),
                  render=bool(req.get('render_sql')))
    seams.connect_signals()
    ctxs = []
    for alias in sorted(req['databases']):
        c = connections[alias].execute_wrapper(seams.make_wrapper(alias))
        c.__enter__()
        ctxs.append(c)
    seams._ctxs = ctxs      # keep the generators alive
    return seams


def _exit_event(trace, status, exc=None, out=None, err=None, extra=None):
    ev = {'t': 'exit', 'status': status}
    if exc is not None:
        ev['exc'] = type(exc).__name__
        ev['msg'] = str(exc)
        lss = getattr(exc, 'last_sql_statement', None)
        if lss is not None:
            ev['last_sql'] = [lss[0], _norm_params(lss[1])]
    if out is not None:
        ev['stdout'] = out
    if err is not None:
        ev['stderr'] = err
    try:
        import django_evolution.management as M
        ev['evolve_lock'] = getattr(M, '_evolve_lock', None)
    except Exception:
        pass
    if extra:
        ev.update(extra)
    trace.emit(ev)


def _post_probes(req, trace):
    """In-child observations after the command (DESIGN appendix B)."""
    probes = req.get('probes') or []
    if not probes:
        return
    from django.db import connections
    db = (req.get('args') or {}).get('database') or 'default'
    if 'sig' in probes:
        from django_evolution.models import Version
        from django_evolution.signature import ProjectSignature
        from django_evolution.diff import Diff
        from django_evolution.utils.models import clear_model_rel_tree
        p = {}
        try:
            v = Version.objects.using(db).order_by('-when', '-id')[0]
            stored = v.signature
            target = ProjectSignature.from_database(db)
            p['eq'] = bool(stored == target)
            d1 = Diff(stored, target)
            d2 = Diff(target, stored)
            p['diff_st_empty'] = d1.is_empty(ignore_apps=True)
            p['diff_ts_empty'] = d2.is_empty(ignore_apps=True)
            if not p['diff_st_empty']:
                p['diff_st'] = str(d1)
            p['version_id'] = v.pk
            per_app = {}
            for app_sig in target.app_sigs:
                other = stored.get_app_sig(app_sig.app_id)
                per_app[app_sig.app_id] = bool(other is not None and
                                               other == app_sig)
            p['apps_eq'] = per_app
            field = Version._meta.get_field('signature')
            with connections[db].cursor() as cur:
                cur.execute('SELECT signature FROM django_project_version '
                            'WHERE id = %s', [v.pk])
                raw = cur.fetchone()[0]
            p['reserialise_equal'] = (field._dumps(stored) == raw)
            try:
                import json as _json
                p['reserialise_content_equal'] = (
                    _json.loads(field._dumps(stored)[5:]) ==
                    _json.loads(raw[5:]))
            except Exception:
                p['reserialise_content_equal'] = None
            p['target_text_equal'] = (field._dumps(target) == raw)
            clone = stored.clone()
            p['clone_eq'] = bool(clone == stored)
            p['clone_diff_empty'] = Diff(stored, clone).is_empty(
                ignore_apps=False) and Diff(clone, stored).is_empty(
                ignore_apps=False)
            p['self_diff_empty'] = Diff(stored, stored).is_empty(
                ignore_apps=False)
        except Exception as e:
            p['error'] = '%s: %s' % (type(e).__name__, e)
        trace.emit({'t': 'probe', 'name': 'sig', 'p': p})


def op_evolve(req, trace):
    """`evolve` management command through call_command."""
    configure(req)
    from django.core.management import call_command
    from django.core.management.base import CommandError
    seams = _with_seams(req, trace)
    out, err = io.StringIO(), io.StringIO()
    args = dict(req.get('args') or {})
    args.setdefault('interactive', False)
    args.setdefault('verbosity', 1)
    status, exc = 'ok', None
    try:
        call_command('evolve', stdout=out, stderr=err, **args)
    except CommandError as e:
        status, exc = 'command_error', e
    except Exception as e:
        status, exc = 'exception', e
        trace.emit({'t': 'tb', 'tb': traceback.format_exc()})
    seams.fault = None
    try:
        _post_probes(req, trace)
    except Exception as e:
        trace.emit({'t': 'probe', 'name': 'error',
                    'p': {'error': repr(e), 'tb': traceback.format_exc()}})
    _exit_event(trace, status, exc, out.getvalue(), err.getvalue())


def op_command(req, trace):
    """Any other management command (migrate, mark-evolution-applied,
    wipe-evolution, list-evolutions)."""
    configure(req)
    from django.core.management import call_command
    from django.core.management.base import CommandError
    seams = _with_seams(req, trace)
    out, err = io.StringIO(), io.StringIO()
    args = dict(req.get('args') or {})
    pos = list(req.get('pos') or [])
    status, exc = 'ok', None
    try:
        call_command(req['command'], *pos, stdout=out, stderr=err, **args)
    except CommandError as e:
        status, exc = 'command_error', e
    except Exception as e:
        status, exc = 'exception', e
        trace.emit({'t': 'tb', 'tb': traceback.format_exc()})
    seams.fault = None
    _post_probes(req, trace)
    _exit_event(trace, status, exc, out.getvalue(), err.getvalue())


def op_api(req, trace):
    """Evolver API: queue selected apps (or all), optional purge, evolve()."""
    configure(req)
    from django_evolution.evolve import Evolver
    from django_evolution.errors import EvolutionException
    from django_evolution.compat.apps import get_app
    seams = _with_seams(req, trace)
    args = req.get('args') or {}
    status, exc = 'ok', None
    extra = {}
    try:
        ev = Evolver(database_name=args.get('database', 'default'),
                     hinted=args.get('hinted', False))
        if args.get('apps') is None:
            ev.queue_evolve_all_apps()
        else:
            for a in args['apps']:
                ev.queue_evolve_app(get_app(a))
        if args.get('purge'):
            ev.queue_purge_old_apps()
        extra['required'] = bool(ev.get_evolution_required())
        extra['can_simulate'] = bool(ev.can_simulate())
        d = ev.diff_evolutions()
        extra['diff_empty'] = bool(d.is_empty(
            ignore_apps=not args.get('purge')))
        if not extra['diff_empty']:
            extra['diff'] = str(d)
        if args.get('execute', True) and extra['required'] and (
                extra['diff_empty'] or args.get('force')):
            if args.get('nested_atomic'):
                # the caller holds its own transaction around evolve(),
                # handles the failure inside it and lets the block commit
                from django.db import transaction
                with transaction.atomic(using=args.get('database',
                                                       'default')):
                    try:
                        ev.evolve()
                        extra['evolved'] = True
                    except EvolutionException as e:
                        status, exc = 'evolution_error', e
            else:
                ev.evolve()
                extra['evolved'] = True
        elif args.get('execute', True) and extra['required']:
            # what the evolve command does at its simulation gate
            status = 'rejected'
    except EvolutionException as e:
        status, exc = 'evolution_error', e
    except Exception as e:
        status, exc = 'exception', e
        trace.emit({'t': 'tb', 'tb': traceback.format_exc()})
    seams.fault = None
    _post_probes(req, trace)
    _exit_event(trace, status, exc, extra=extra)


def op_fresh_schema(req, trace):
    """Reference: create the deployed models with Django's own schema editor
    in an empty database.  No django-evolution code is imported."""
    configure(req, with_evolution=False)
    from django.apps import apps
    from django.db import connections, router
    labels = req['args']['app_labels']
    for alias in sorted(req['databases']):
        conn = connections[alias]
        with conn.schema_editor() as ed:
            for label in labels:
                for model in apps.get_app_config(label).get_models():
                    if router.allow_migrate_model(alias, model):
                        ed.create_model(model)
    _exit_event(trace, 'ok')


OPS = {
    'evolve': op_evolve,
    'command': op_command,
    'api': op_api,
    'fresh_schema': op_fresh_schema,
}


def register(name):
    def deco(fn):
        OPS[name] = fn
        return fn
    return deco
