"""Additional child operations (fast backend, probes, graph sampler ...).
Imported by the zygote so that child.OPS is complete."""
from evosim.child import register  # noqa
