"""Additional child operations (probing evolver, bare AppMutator, graph
sampler ...).  Imported by the zygote so that child.OPS is complete."""
import importlib
import traceback

from evosim.child import (register, configure, _with_seams, _exit_event,
                          _post_probes)


def _flatten_sql(sql):
    out = []
    for item in sql or []:
        if callable(item):
            out.append('<callable>')
        elif hasattr(item, 'sql'):
            out.append('%s:%s' % (type(item).__name__,
                                  _flatten_sql(item.sql)))
        elif isinstance(item, (list,)):
            out.append(_flatten_sql(item))
        else:
            out.append(repr(item))
    return out


def _mutation_strs(req):
    """str() of every mutation object of the listed evolution modules (the
    very objects the evolver will use: module-level MUTATIONS lists)."""
    out = {}
    for pkg, labels in sorted((req['args'].get('modules') or {}).items()):
        for label in labels:
            try:
                mod = importlib.import_module('%s.evolutions.%s' % (pkg,
                                                                    label))
                out['%s.%s' % (pkg, label)] = [str(m) for m in mod.MUTATIONS]
            except Exception as e:
                out['%s.%s' % (pkg, label)] = ['<import error %r>' % (e,)]
    return out


@register('evolve_probe')
def op_evolve_probe(req, trace):
    """Evolver API with in-child probes for C03: mutation str() before /
    after preparing and evolving, and a second preparation pass over the
    same definitions in the same process."""
    configure(req)
    from django_evolution.evolve import Evolver
    from django_evolution.errors import EvolutionException
    seams = _with_seams(req, trace)
    args = req.get('args') or {}
    db = args.get('database', 'default')
    status, exc = 'ok', None
    extra = {}
    try:
        before = _mutation_strs(req)
        ev1 = Evolver(database_name=db)
        ev1.queue_evolve_all_apps()
        sql1 = dict((t.id, _flatten_sql(getattr(t, 'sql', None)))
                    for t in ev1.tasks)
        after_prepare = _mutation_strs(req)
        ev2 = Evolver(database_name=db)
        ev2.queue_evolve_all_apps()
        sql2 = dict((t.id, _flatten_sql(getattr(t, 'sql', None)))
                    for t in ev2.tasks)
        extra['required'] = bool(ev2.get_evolution_required())
        d = ev2.diff_evolutions()
        extra['diff_empty'] = bool(d.is_empty(ignore_apps=True))
        if not extra['diff_empty']:
            extra['diff'] = str(d)[:500]
        if extra['required'] and extra['diff_empty'] and \
                ev2.can_simulate():
            ev2.evolve()
            extra['evolved'] = True
        after_evolve = _mutation_strs(req)
        trace.emit({'t': 'probe', 'name': 'mutations', 'p': {
            'rewritten_by_prepare': before != after_prepare,
            'rewritten_by_evolve': before != after_evolve,
            'before': before, 'after': after_evolve,
            'second_pass_same_sql': sql1 == sql2,
            'sql1': sql1 if sql1 != sql2 else None,
            'sql2': sql2 if sql1 != sql2 else None}})
    except EvolutionException as e:
        status, exc = 'evolution_error', e
    except Exception as e:
        status, exc = 'exception', e
        trace.emit({'t': 'tb', 'tb': traceback.format_exc()})
    seams.fault = None
    _post_probes(req, trace)
    _exit_event(trace, status, exc, extra=extra)


@register('appmutator')
def op_appmutator(req, trace):
    """Bare AppMutator over the stored signature and the database state
    scanned from the real database (as the evolver does), for one app and
    the listed evolution labels; executes the SQL."""
    configure(req)
    from django_evolution.db.state import DatabaseState
    from django_evolution.models import Version
    from django_evolution.mutators import AppMutator
    from django_evolution.utils.sql import SQLExecutor
    from django_evolution.errors import EvolutionException
    seams = _with_seams(req, trace)
    args = req.get('args') or {}
    db = args.get('database', 'default')
    status, exc = 'ok', None
    extra = {}
    try:
        sig = Version.objects.current_version(using=db).signature
        st = DatabaseState(db)
        muts = []
        for label in args['labels']:
            mod = importlib.import_module('%s.evolutions.%s' % (args['pkg'],
                                                                label))
            muts += list(mod.MUTATIONS)
        before = [str(m) for m in muts]
        am = AppMutator(app_label=args['app_label'], project_sig=sig,
                        database_state=st, database=db)
        am.run_mutations(muts)
        sql = am.to_sql()
        extra['can_simulate'] = bool(am.can_simulate)
        from django_evolution import signals as S
        S.evolving.send(sender=None)
        with SQLExecutor(db, check_constraints=False) as ex:
            ex.run_sql(sql, execute=True, capture=True)
        extra['mutations_rewritten'] = before != [str(m) for m in muts]
        import json
        extra['app_sig'] = json.dumps(
            am.project_sig.get_app_sig(args['app_label']).serialize(),
            sort_keys=True)
    except EvolutionException as e:
        status, exc = 'evolution_error', e
    except Exception as e:
        status, exc = 'exception', e
        trace.emit({'t': 'tb', 'tb': traceback.format_exc()})
    seams.fault = None
    _exit_event(trace, status, exc, extra=extra)


@register('load_evolution')
def op_load_evolution(req, trace):
    """Import evolution modules the normal way and report str() of their
    mutations (C13)."""
    configure(req)
    out = {}
    status, exc = 'ok', None
    try:
        from django_evolution.utils.evolutions import get_evolution_module
        from django_evolution.compat.apps import get_app
        for pkg, labels in sorted((req['args'].get('modules') or {}).items()):
            app = get_app(req['args'].get('app_labels', {}).get(pkg, pkg))
            for label in labels:
                try:
                    mod = get_evolution_module(app, label)
                    out['%s.%s' % (pkg, label)] = {
                        'mutations': [str(m) for m in mod.MUTATIONS]}
                except BaseException as e:
                    out['%s.%s' % (pkg, label)] = {
                        'error': '%s: %s' % (type(e).__name__, e)}
    except Exception as e:
        status, exc = 'exception', e
        trace.emit({'t': 'tb', 'tb': traceback.format_exc()})
    trace.emit({'t': 'probe', 'name': 'loaded', 'p': out})
    _exit_event(trace, status, exc)


@register('graph_sample')
def op_graph_sample(req, trace):
    """C09(a): seeded random digraphs given to DependencyGraph in a seeded
    random insertion order; checks permutation / edge order / cycles."""
    import random
    configure(req)
    from django_evolution.utils.graph import DependencyGraph
    args = req['args']
    rng = random.Random(args['gseed'])
    viols = []
    stats = {'graphs': 0, 'cyclic': 0, 'acyclic': 0, 'removed': 0,
             'self_loop': 0}
    for gi in range(args.get('count', 200)):
        n = rng.randint(1, args.get('max_nodes', 7))
        nodes = ['n%d' % i for i in range(n)]
        edges = set()
        p = rng.choice([0.1, 0.2, 0.35, 0.5])
        for a in nodes:
            for b in nodes:
                if a != b and rng.random() < p / 2:
                    edges.add((a, b))      # a depends on b
        mode = rng.choice(['dag', 'dag', 'any', 'self'])
        if mode == 'dag':
            # keep only edges from later to earlier in a random total order
            order = nodes[:]
            rng.shuffle(order)
            pos = {k: i for i, k in enumerate(order)}
            edges = {(a, b) for (a, b) in edges if pos[a] > pos[b]}
        elif mode == 'self' and nodes:
            x = rng.choice(nodes)
            edges.add((x, x))
            stats['self_loop'] += 1
        removed = set()
        if rng.random() < 0.25 and nodes:
            removed = set(rng.sample(nodes, rng.randint(1, max(1, n // 3))))
            stats['removed'] += 1
        eff = {(a, b) for (a, b) in edges
               if a not in removed and b not in removed}
        # cyclic?
        adj = {}
        for a, b in eff:
            adj.setdefault(a, set()).add(b)
        color = {}

        def cyc(u):
            color[u] = 1
            for v in adj.get(u, ()):
                if color.get(v) == 1 or (color.get(v) is None and cyc(v)):
                    return True
            color[u] = 2
            return False
        cyclic = any(color.get(u) is None and cyc(u) for u in nodes)
        stats['cyclic' if cyclic else 'acyclic'] += 1
        stats['graphs'] += 1
        ins = nodes[:]
        rng.shuffle(ins)
        elist = sorted(edges)
        rng.shuffle(elist)
        g = DependencyGraph()
        # interleave node and dependency insertion
        pending_edges = list(elist)
        for k in ins:
            g.add_node(k)
            while pending_edges and rng.random() < 0.5:
                a, b = pending_edges.pop()
                g.add_dependency(a, b)
        for a, b in pending_edges:
            g.add_dependency(a, b)
        if removed:
            g.remove_dependencies(removed)
        desc = {'nodes': ins, 'edges': [list(e) for e in sorted(eff)],
                'removed': sorted(removed)}
        try:
            g.finalize()
            got = [nd.key for nd in g.get_ordered()]
        except Exception as e:
            if not cyclic:
                viols.append({'rule': 'C09.acyclic_raised', 'detail': dict(
                    desc, exc='%s: %s' % (type(e).__name__, e))})
            continue
        if cyclic:
            viols.append({'rule': 'C09.cycle_silent', 'detail': dict(
                desc, got=got)})
            continue
        if sorted(got) != sorted(nodes):
            viols.append({'rule': 'C09.not_permutation', 'detail': dict(
                desc, got=got)})
            continue
        pos = {k: i for i, k in enumerate(got)}
        for a, b in sorted(eff):
            if pos[b] > pos[a]:
                viols.append({'rule': 'C09.edge_violated', 'detail': dict(
                    desc, got=got, edge=[a, b])})
                break
    trace.emit({'t': 'probe', 'name': 'graph', 'p': {'violations': viols[:20],
                                                      'stats': stats}})
    _exit_event(trace, 'ok')


def walk_signature(sig):
    """[(app, model, field, related_model)] whose related_model names an
    app/model absent from the signature."""
    dangling = []
    # strict lookup by the *current* app id (get_app_sig() also answers to
    # the legacy label)
    have = {}
    for app_sig in sig.app_sigs:
        have[app_sig.app_id] = set(m.model_name for m in app_sig.model_sigs)
    for app_sig in sig.app_sigs:
        for model_sig in app_sig.model_sigs:
            for field_sig in model_sig.field_sigs:
                rel = field_sig.related_model
                if not rel:
                    continue
                ra, rm = rel.split('.', 1)
                if ra not in have or rm not in have[ra]:
                    dangling.append([app_sig.app_id, model_sig.model_name,
                                     field_sig.field_name, rel])
    return dangling


@register('simulate_walk')
def op_simulate_walk(req, trace):
    """C11: simulate the listed evolutions one mutation at a time on the
    stored signature and walk the project signature after each mutation."""
    configure(req)
    from django_evolution.db.state import DatabaseState
    from django_evolution.models import Version
    from django_evolution.errors import EvolutionException
    args = req['args']
    db = args.get('database', 'default')
    out = []
    status, exc = 'ok', None
    try:
        sig = Version.objects.current_version(using=db).signature
        st = DatabaseState(db)
        out.append({'after': None, 'dangling': walk_signature(sig)})
        for item in args['plan']:
            mod = importlib.import_module('%s.evolutions.%s' % (
                item['pkg'], item['label']))
            app_label = item['app_label']
            for m in mod.MUTATIONS:
                rec = {'after': str(m)}
                try:
                    m.run_simulation(app_label=app_label, project_sig=sig,
                                     database_state=st,
                                     legacy_app_label=item.get('legacy'),
                                     database=db)
                    if type(m).__name__ == 'RenameAppLabel':
                        app_label = m.new_app_label
                except EvolutionException as e:
                    rec['sim_error'] = '%s: %s' % (type(e).__name__, e)
                rec['dangling'] = walk_signature(sig)
                rec['apps'] = sorted(a.app_id for a in sig.app_sigs)
                out.append(rec)
    except Exception as e:
        status, exc = 'exception', e
        trace.emit({'t': 'tb', 'tb': traceback.format_exc()})
    trace.emit({'t': 'probe', 'name': 'walk', 'p': out})
    _exit_event(trace, status, exc)


@register('hint_probe')
def op_hint_probe(req, trace):
    """C05: stored signature (through storage) vs target signature (live
    models): hinted evolution simulated on a clone must leave no residual
    difference; self / clone / equality-vs-difference agreement."""
    import json
    configure(req)
    from django_evolution.compat.datastructures import OrderedDict
    from django_evolution.db.state import DatabaseState
    from django_evolution.diff import Diff
    from django_evolution.errors import EvolutionException
    from django_evolution.models import Version
    from django_evolution.signature import ProjectSignature
    db = (req.get('args') or {}).get('database', 'default')
    p = {}
    status, exc = 'ok', None
    try:
        stored = Version.objects.current_version(using=db).signature
        target = ProjectSignature.from_database(db)
        st = DatabaseState(db)

        def both_empty(a, b):
            return (Diff(a, b).is_empty(ignore_apps=False) and
                    Diff(b, a).is_empty(ignore_apps=False))

        def agree(a, b):
            return bool(a == b) == both_empty(a, b)
        d = Diff(stored, target)
        p['diff_empty'] = d.is_empty(ignore_apps=False)
        p['diff_text'] = str(d)[:600]
        hinted = d.evolution()
        p['hinted'] = dict((k, [str(m) for m in v])
                           for k, v in hinted.items())
        sim = stored.clone()
        sim_errors = []
        for app_label in hinted:
            for m in hinted[app_label]:
                try:
                    m.run_simulation(app_label=app_label, project_sig=sim,
                                     database_state=st, database=db)
                except EvolutionException as e:
                    sim_errors.append('%s: %s: %s' % (
                        m, type(e).__name__, e))
        p['sim_errors'] = sim_errors
        resid = Diff(sim, target)
        p['residual_empty'] = resid.is_empty(ignore_apps=False)
        p['residual'] = str(resid)[:600]
        p['residual_reverse_empty'] = Diff(target, sim).is_empty(
            ignore_apps=False)
        p['self_diff_empty'] = both_empty(stored, stored) and both_empty(
            target, target)
        p['clone_diff_empty'] = both_empty(stored, stored.clone()) and \
            both_empty(target, target.clone())
        p['clone_eq'] = bool(stored == stored.clone()) and bool(
            target == target.clone())
        target2 = ProjectSignature.deserialize(json.loads(
            json.dumps(target.serialize()), object_pairs_hook=OrderedDict))
        pairs = {'stored_target': (stored, target),
                 'stored_clone': (stored, stored.clone()),
                 'target_roundtrip': (target, target2),
                 'sim_target': (sim, target)}
        p['agree'] = dict((k, agree(a, b)) for k, (a, b) in pairs.items())
        p['eq'] = dict((k, bool(a == b)) for k, (a, b) in pairs.items())
        p['empty'] = dict((k, both_empty(a, b))
                          for k, (a, b) in pairs.items())
    except Exception as e:
        status, exc = 'exception', e
        trace.emit({'t': 'tb', 'tb': traceback.format_exc()})
    trace.emit({'t': 'probe', 'name': 'hint', 'p': p})
    _exit_event(trace, status, exc)


@register('legacy_sig')
def op_legacy_sig(req, trace):
    """Rewrite the current stored signature as a version-1 pickle, the way a
    database last touched by Django Evolution 1.x has it (C06)."""
    configure(req)
    from django.db import connections
    from django_evolution.compat.py23 import pickle_dumps
    from django_evolution.models import Version
    db = (req.get('args') or {}).get('database', 'default')
    status, exc = 'ok', None
    extra = {}
    try:
        v = Version.objects.current_version(using=db)
        data = v.signature.serialize(sig_version=1)
        if (req.get('args') or {}).get('unapplied_unique_together'):
            # a database last touched by Django Evolution < 0.7: the
            # unique_together of its models was recorded but never applied
            for app_label, models_ in data.items():
                if app_label == '__version__':
                    continue
                for model_sig in models_.values():
                    meta = model_sig.get('meta') or {}
                    if meta.get('unique_together'):
                        meta['__unique_together_applied'] = False
        text = pickle_dumps(data)
        with connections[db].cursor() as cur:
            cur.execute('UPDATE django_project_version SET signature = %s '
                        'WHERE id = %s', [text, v.pk])
        extra['version_id'] = v.pk
        extra['v1_apps'] = sorted(k for k in data if k != '__version__')
    except Exception as e:
        status, exc = 'exception', e
        trace.emit({'t': 'tb', 'tb': traceback.format_exc()})
    _exit_event(trace, status, exc, extra=extra)
