"""Additional child operations (probing evolver, bare AppMutator, graph
sampler ...).  Imported by the zygote so that child.OPS is complete."""
import importlib
import traceback

from evosim.child import (register, configure, _with_seams, _exit_event,
                          _post_probes)


def _flatten_sql(sql):
    out = []
    for item in sql or []:
        if callable(item):
            out.append('<callable>')
        elif hasattr(item, 'sql'):
            out.append('%s:%s' % (type(item).__name__,
                                  _flatten_sql(item.sql)))
        elif isinstance(item, (list,)):
            out.append(_flatten_sql(item))
        else:
            out.append(repr(item))
    return out


def _mutation_strs(req):
    """str() of every mutation object of the listed evolution modules (the
    very objects the evolver will use: module-level MUTATIONS lists)."""
    out = {}
    for pkg, labels in sorted((req['args'].get('modules') or {}).items()):
        for label in labels:
            try:
                mod = importlib.import_module('%s.evolutions.%s' % (pkg,
                                                                    label))
                out['%s.%s' % (pkg, label)] = [str(m) for m in mod.MUTATIONS]
            except Exception as e:
                out['%s.%s' % (pkg, label)] = ['<import error %r>' % (e,)]
    return out


@register('evolve_probe')
def op_evolve_probe(req, trace):
    """Evolver API with in-child probes for C03: mutation str() before /
    after preparing and evolving, and a second preparation pass over the
    same definitions in the same process."""
    configure(req)
    from django_evolution.evolve import Evolver
    from django_evolution.errors import EvolutionException
    seams = _with_seams(req, trace)
    args = req.get('args') or {}
    db = args.get('database', 'default')
    status, exc = 'ok', None
    extra = {}
    try:
        before = _mutation_strs(req)
        ev1 = Evolver(database_name=db)
        ev1.queue_evolve_all_apps()
        sql1 = dict((t.id, _flatten_sql(getattr(t, 'sql', None)))
                    for t in ev1.tasks)
        after_prepare = _mutation_strs(req)
        ev2 = Evolver(database_name=db)
        ev2.queue_evolve_all_apps()
        sql2 = dict((t.id, _flatten_sql(getattr(t, 'sql', None)))
                    for t in ev2.tasks)
        extra['required'] = bool(ev2.get_evolution_required())
        d = ev2.diff_evolutions()
        extra['diff_empty'] = bool(d.is_empty(ignore_apps=True))
        if not extra['diff_empty']:
            extra['diff'] = str(d)[:500]
        if extra['required'] and extra['diff_empty'] and \
                ev2.can_simulate():
            ev2.evolve()
            extra['evolved'] = True
        after_evolve = _mutation_strs(req)
        trace.emit({'t': 'probe', 'name': 'mutations', 'p': {
            'rewritten_by_prepare': before != after_prepare,
            'rewritten_by_evolve': before != after_evolve,
            'before': before, 'after': after_evolve,
            'second_pass_same_sql': sql1 == sql2,
            'sql1': sql1 if sql1 != sql2 else None,
            'sql2': sql2 if sql1 != sql2 else None}})
    except EvolutionException as e:
        status, exc = 'evolution_error', e
    except Exception as e:
        status, exc = 'exception', e
        trace.emit({'t': 'tb', 'tb': traceback.format_exc()})
    seams.fault = None
    _post_probes(req, trace)
    _exit_event(trace, status, exc, extra=extra)


@register('appmutator')
def op_appmutator(req, trace):
    """Bare AppMutator over the stored signature and the database state
    scanned from the real database (as the evolver does), for one app and
    the listed evolution labels; executes the SQL."""
    configure(req)
    from django_evolution.db.state import DatabaseState
    from django_evolution.models import Version
    from django_evolution.mutators import AppMutator
    from django_evolution.utils.sql import SQLExecutor
    from django_evolution.errors import EvolutionException
    seams = _with_seams(req, trace)
    args = req.get('args') or {}
    db = args.get('database', 'default')
    status, exc = 'ok', None
    extra = {}
    try:
        sig = Version.objects.current_version(using=db).signature
        st = DatabaseState(db)
        muts = []
        for label in args['labels']:
            mod = importlib.import_module('%s.evolutions.%s' % (args['pkg'],
                                                                label))
            muts += list(mod.MUTATIONS)
        before = [str(m) for m in muts]
        am = AppMutator(app_label=args['app_label'], project_sig=sig,
                        database_state=st, database=db)
        am.run_mutations(muts)
        sql = am.to_sql()
        extra['can_simulate'] = bool(am.can_simulate)
        from django_evolution import signals as S
        S.evolving.send(sender=None)
        with SQLExecutor(db, check_constraints=False) as ex:
            ex.run_sql(sql, execute=True, capture=True)
        extra['mutations_rewritten'] = before != [str(m) for m in muts]
        import json
        extra['app_sig'] = json.dumps(
            am.project_sig.get_app_sig(args['app_label']).serialize(),
            sort_keys=True)
    except EvolutionException as e:
        status, exc = 'evolution_error', e
    except Exception as e:
        status, exc = 'exception', e
        trace.emit({'t': 'tb', 'tb': traceback.format_exc()})
    seams.fault = None
    _exit_event(trace, status, exc, extra=extra)


@register('load_evolution')
def op_load_evolution(req, trace):
    """Import evolution modules the normal way and report str() of their
    mutations (C13)."""
    configure(req)
    out = {}
    status, exc = 'ok', None
    try:
        from django_evolution.utils.evolutions import get_evolution_module
        from django_evolution.compat.apps import get_app
        for pkg, labels in sorted((req['args'].get('modules') or {}).items()):
            app = get_app(req['args'].get('app_labels', {}).get(pkg, pkg))
            for label in labels:
                try:
                    mod = get_evolution_module(app, label)
                    out['%s.%s' % (pkg, label)] = {
                        'mutations': [str(m) for m in mod.MUTATIONS]}
                except BaseException as e:
                    out['%s.%s' % (pkg, label)] = {
                        'error': '%s: %s' % (type(e).__name__, e)}
    except Exception as e:
        status, exc = 'exception', e
        trace.emit({'t': 'tb', 'tb': traceback.format_exc()})
    trace.emit({'t': 'probe', 'name': 'loaded', 'p': out})
    _exit_event(trace, status, exc)
