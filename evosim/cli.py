"""python -m evosim check C07 [--tier quick|thorough] [--seed N] [--repo P]
   python -m evosim replay FILE [--repo P]
   python -m evosim selftest determinism|mutants ..."""
import argparse
import os
import sys


def main(argv=None):
    ap = argparse.ArgumentParser(prog='evosim')
    sub = ap.add_subparsers(dest='cmd')
    c = sub.add_parser('check')
    c.add_argument('property')
    c.add_argument('--tier', default=os.environ.get('VERIF_TIER', 'quick'))
    c.add_argument('--seed', type=int,
                   default=int(os.environ.get('VERIF_SEED', '1')))
    c.add_argument('--repo', default=os.environ.get('EVOSIM_REPO', '/repo'))
    c.add_argument('--count', type=int)
    c.add_argument('--workers', type=int)
    c.add_argument('--max-wall', type=int)
    r = sub.add_parser('replay')
    r.add_argument('path')
    r.add_argument('--repo', default=os.environ.get('EVOSIM_REPO', '/repo'))
    r.add_argument('--quiet', action='store_true')
    s = sub.add_parser('selftest')
    s.add_argument('what')
    s.add_argument('args', nargs='*')
    s.add_argument('--repo', default=os.environ.get('EVOSIM_REPO', '/repo'))
    sub.add_parser('setup')
    args = ap.parse_args(argv)
    if args.cmd == 'setup':
        from evosim import runner
        import django
        runner.prepare_bytecode('/repo')
        print('evosim setup ok: django %s' % django.get_version())
        return 0
    if args.cmd == 'check':
        from evosim import engine
        tier = args.tier if args.tier in ('quick', 'thorough') else 'quick'
        os.environ['EVOSIM_REPO'] = args.repo
        return engine.run_check(args.property.upper(), tier, args.seed,
                                repo=args.repo, workers=args.workers,
                                count=args.count, max_wall=args.max_wall)
    if args.cmd == 'replay':
        from evosim import engine
        os.environ['EVOSIM_REPO'] = args.repo
        hit, res = engine.replay_file(args.path, repo=args.repo,
                                      quiet=args.quiet)
        import json
        with open(args.path) as fp:
            doc = json.load(fp)
        if hit:
            print('VIOLATION property=%s replay=%s' % (doc['property'],
                                                       args.path))
            return 1
        print('replay: expected rule %s did not fire' % doc['expect']['rule'])
        return 0
    if args.cmd == 'selftest':
        from evosim import selftest
        return selftest.main(args.what, args.args, args.repo)
    ap.print_help()
    return 2
