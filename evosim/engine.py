"""Check engine: seeded search over scenarios across a process pool, known
findings, minimisation, replay in a fresh interpreter, evidence files."""
import collections
import concurrent.futures
import faulthandler
import hashlib
import importlib
import json
import multiprocessing
import os
import re
import subprocess
import sys
import time
import traceback

from evosim import runner

VERIF = runner.VERIF
KNOWN_PATH = os.path.join(VERIF, 'known_findings.json')
EVIDENCE_DIR = os.path.join(VERIF, 'evidence')
REPLAY_DIR = os.path.join(VERIF, 'replays')


def load_prop(pid):
    return importlib.import_module('evosim.props.%s' % pid.lower())


# ---------------------------------------------------------------------------
# violations and known findings
# ---------------------------------------------------------------------------

def violation(rule, **detail):
    return {'rule': rule, 'detail': detail}


def vkey(v):
    """Stable identity of a violation (rule + canonical detail)."""
    return v['rule'] + ':' + hashlib.sha256(
        json.dumps(v['detail'], sort_keys=True, default=repr).encode()
    ).hexdigest()[:12]


def load_known():
    if not os.path.exists(KNOWN_PATH):
        return {'findings': [], 'fixed': []}
    with open(KNOWN_PATH) as fp:
        return json.load(fp)


def _match_value(pred, value):
    if isinstance(pred, dict):
        if 're' in pred:
            return value is not None and re.search(pred['re'],
                                                   str(value)) is not None
        if 'in' in pred:
            return value in pred['in']
        if 'all_in' in pred:
            return isinstance(value, list) and len(value) > 0 and all(
                x in pred['all_in'] for x in value)
        if 'any_in' in pred:
            return isinstance(value, list) and any(
                x in pred['any_in'] for x in value)
        if 'contains' in pred:
            return isinstance(value, (list, str)) and pred['contains'] in value
        if 'eq' in pred:
            return value == pred['eq']
        if 'ne' in pred:
            return value != pred['ne']
        if 'truthy' in pred:
            return bool(value) == bool(pred['truthy'])
        return False
    return value == pred


def match_known(known, prop, v):
    """The known-finding entry matching violation v, or None."""
    for entry in known.get('findings', []):
        if entry['property'] != prop:
            continue
        rules = entry['rule'] if isinstance(entry['rule'], list) \
            else [entry['rule']]
        if v['rule'] not in rules:
            continue
        ok = True
        for k, pred in (entry.get('match') or {}).items():
            if not _match_value(pred, v['detail'].get(k)):
                ok = False
                break
        if ok:
            return entry
    return None


# ---------------------------------------------------------------------------
# workers
# ---------------------------------------------------------------------------

def _worker_init(repo):
    os.environ['EVOSIM_REPO'] = repo
    faulthandler.enable()


def _work(pid, seed, index, tier, repo):
    """Generate and execute scenario (seed, index) of property pid."""
    faulthandler.dump_traceback_later(600, exit=True)
    t0 = time.time()
    prop = load_prop(pid)
    out = {'index': index, 'violations': [], 'stats': {}, 'error': None}
    try:
        scn = prop.generate(seed, index, tier)
        if os.environ.get('EVOSIM_DIGEST'):
            runner.DIGEST = hashlib.sha256()
            runner.digest_update(scn)
        res = prop.execute(scn)
        out.update(res)
        if os.environ.get('EVOSIM_DIGEST'):
            runner.digest_update([res.get('violations'), res.get('stats'),
                                  res.get('shape')])
            out['digest'] = runner.DIGEST.hexdigest()
            runner.DIGEST = None
        if res.get('violations') or res.get('want_scenario'):
            out['scenario'] = scn
    except Exception as e:
        out['error'] = '%s: %s\n%s' % (type(e).__name__, e,
                                       traceback.format_exc())
    out['wall'] = time.time() - t0
    faulthandler.cancel_dump_traceback_later()
    return out


def execute_scenario(pid, scn):
    prop = load_prop(pid)
    return prop.execute(scn)


# ---------------------------------------------------------------------------
# minimisation and replay
# ---------------------------------------------------------------------------

def minimise(pid, scn, rule, known, budget=60, deadline=None):
    """Greedy structural reduction keeping 'same rule of the same property
    still fires and is not a known finding'."""
    prop = load_prop(pid)
    if not hasattr(prop, 'shrinks'):
        return scn, 0
    tries = 0
    improved = True
    while improved and tries < budget:
        improved = False
        for cand in prop.shrinks(scn):
            if tries >= budget or (deadline and time.time() > deadline):
                return scn, tries
            tries += 1
            try:
                res = prop.execute(cand)
            except Exception:
                continue
            hit = [v for v in res.get('violations', [])
                   if v['rule'] == rule and not match_known(known, pid, v)]
            if hit:
                scn = cand
                improved = True
                break
    return scn, tries


def write_replay(pid, seed, index, scn, v):
    os.makedirs(REPLAY_DIR, exist_ok=True)
    path = os.path.join(REPLAY_DIR, '%s-%d-%d.json' % (pid, seed, index))
    with open(path, 'w') as fp:
        json.dump({'format': 1, 'property': pid, 'seed': seed,
                   'index': index, 'scenario': scn,
                   'expect': {'rule': v['rule'], 'detail': v['detail']}},
                  fp, indent=1, sort_keys=True, default=repr)
    return path


def replay_file(path, repo=None, quiet=False):
    """Execute a replay file in this process; returns (reproduced, result)."""
    with open(path) as fp:
        doc = json.load(fp)
    pid = doc['property']
    if repo:
        os.environ['EVOSIM_REPO'] = repo
    runner.prepare_bytecode(os.environ.get('EVOSIM_REPO', '/repo'))
    try:
        res = execute_scenario(pid, doc['scenario'])
    finally:
        runner.close_pool()
    rule = doc['expect']['rule']
    hit = [v for v in res.get('violations', []) if v['rule'] == rule]
    if not quiet:
        for v in res.get('violations', []):
            print('violation %s %s' % (v['rule'], json.dumps(
                v['detail'], sort_keys=True, default=repr)[:600]))
    return bool(hit), res


def replay_fresh(path, repo):
    """Replay in a fresh interpreter; True if the expected rule fires."""
    env = dict(os.environ)
    env['EVOSIM_REPO'] = repo
    p = subprocess.run([runner.PYTHON, '-m', 'evosim', 'replay', path,
                        '--quiet'], cwd=VERIF, env=env,
                       stdout=subprocess.PIPE, stderr=subprocess.STDOUT,
                       text=True, timeout=900)
    return p.returncode == 1, p.stdout


# ---------------------------------------------------------------------------
# the check loop
# ---------------------------------------------------------------------------

def run_check(pid, tier='quick', seed=1, repo='/repo', workers=None,
              count=None, max_wall=None, out=sys.stdout):
    prop = load_prop(pid)
    t0 = time.time()
    runner.prepare_bytecode(repo)
    known = load_known()
    plan = prop.PLAN[tier]
    count = count or plan['count']
    max_wall = max_wall or plan['max_wall']
    workers = workers or int(os.environ.get('EVOSIM_WORKERS', '0')) or \
        min(16, os.cpu_count() or 4)
    ctx = multiprocessing.get_context('fork')
    stats = collections.Counter()
    shapes = set()
    samples = []
    viols = []          # (index, scenario, violation)
    errors = []
    evaluations = 0
    runs = 0
    incomplete = False
    deadline = t0 + max_wall
    with concurrent.futures.ProcessPoolExecutor(
            max_workers=workers, mp_context=ctx, initializer=_worker_init,
            initargs=(repo,)) as ex:
        pending = set()
        next_index = 0
        try:
            while next_index < count or pending:
                while next_index < count and len(pending) < workers * 2 \
                        and time.time() < deadline:
                    pending.add(ex.submit(_work, pid, seed, next_index, tier,
                                          repo))
                    next_index += 1
                if not pending:
                    break
                done, pending = concurrent.futures.wait(
                    pending, timeout=5,
                    return_when=concurrent.futures.FIRST_COMPLETED)
                for fut in done:
                    try:
                        r = fut.result()
                    except Exception as e:
                        errors.append('worker: %r' % (e,))
                        continue
                    evaluations += 1
                    runs += r.get('runs', 0)
                    for k, n in (r.get('stats') or {}).items():
                        stats[k] += n
                    if r.get('error'):
                        errors.append('scenario %d: %s' % (r['index'],
                                                           r['error']))
                        continue
                    if r.get('nontrivial') and r.get('shape'):
                        shapes.add(r['shape'])
                    if r.get('sample') is not None and len(samples) < 6 and \
                            r.get('nontrivial'):
                        samples.append(r['sample'])
                    for v in r.get('violations', []):
                        viols.append((r['index'], r.get('scenario'), v))
                if time.time() > deadline and next_index < count:
                    incomplete = True
                    if not pending:
                        break
                if time.time() > deadline + 300:
                    incomplete = True
                    for f in pending:
                        f.cancel()
                    break
        finally:
            ex.shutdown(wait=False, cancel_futures=True)

    dump = os.environ.get('EVOSIM_DUMP')
    if dump:
        with open(dump, 'w') as fp:
            for (index, scn, v) in viols:
                fp.write(json.dumps({'index': index, 'v': v,
                                     'known': bool(match_known(known, pid,
                                                               v))},
                                    sort_keys=True, default=repr) + '\n')
    if os.environ.get('EVOSIM_NO_SHRINK'):
        for (index, scn, v) in viols[:0]:
            pass
    # classify violations
    known_hits = collections.OrderedDict()
    fresh = []
    for (index, scn, v) in sorted(viols, key=lambda x: (x[0], vkey(x[2]))):
        entry = match_known(known, pid, v)
        if entry:
            known_hits.setdefault(entry['id'], [entry, 0])
            known_hits[entry['id']][1] += 1
        else:
            fresh.append((index, scn, v))
    for kid, (entry, n) in known_hits.items():
        out.write('KNOWN-FINDING: property=%s %s [%s, %d occurrence(s)]\n'
                  % (pid, entry['what'], kid, n))
    reported = []
    harness_nonreplay = []
    seen_rules = set()
    min_deadline = time.time() + plan.get('shrink_wall', 240)
    for (index, scn, v) in fresh:
        if os.environ.get('EVOSIM_NO_SHRINK'):
            out.write('UNSHRUNK %d %s %s\n' % (index, v['rule'], json.dumps(
                v['detail'], sort_keys=True, default=repr)[:300]))
            continue
        if v['rule'] in seen_rules:
            continue            # one replay per rule per run is enough
        seen_rules.add(v['rule'])
        small, tries = minimise(pid, scn, v['rule'], known,
                                budget=plan.get('shrink_budget', 40),
                                deadline=min_deadline)
        # re-execute the minimised scenario to get its own violation record
        res = execute_scenario(pid, small)
        hit = [x for x in res.get('violations', [])
               if x['rule'] == v['rule'] and not match_known(known, pid, x)]
        vv = hit[0] if hit else v
        path = write_replay(pid, seed, index, small if hit else scn, vv)
        ok, log = replay_fresh(path, repo)
        if ok:
            reported.append((path, vv))
            out.write('VIOLATION property=%s replay=%s\n' % (pid, path))
            out.write('  rule=%s detail=%s\n' % (
                vv['rule'], json.dumps(vv['detail'], sort_keys=True,
                                       default=repr)[:1500]))
        else:
            harness_nonreplay.append((path, log[-2000:]))
            out.write('HARNESS-ERROR: violation did not replay: %s\n' % path)
    runner.close_pool()
    wall = time.time() - t0
    for e in errors[:10]:
        out.write('HARNESS-ERROR: %s\n' % e[:3000])

    # evidence
    cov = {
        'evaluations': evaluations,
        'distinct_nontrivial': len(shapes),
        'rule': prop.RULE_TEXT,
        'samples': samples or [{'note': 'no nontrivial sample'}],
        'runs': runs,
        'runs_per_hour': int(runs / wall * 3600) if wall else 0,
        'scenarios_per_hour': int(evaluations / wall * 3600) if wall else 0,
        'planned_scenarios': count,
        'incomplete': incomplete,
        'workers': workers,
        'counters': dict(sorted(stats.items())),
        'known_findings_hit': {k: n for k, (e, n) in known_hits.items()},
        'harness_errors': len(errors) + len(harness_nonreplay),
        'components': {
            'real': ['django_evolution (from the repo working tree)',
                     'Django 4.2 ORM / schema editor / migration executor',
                     'SQLite library and database files on tmpfs',
                     'process creation and death (one process per run)'],
            'simulated': ['clock (django.utils.timezone.now)',
                          'PYTHONHASHSEED per run', 'fault schedule',
                          'developer / operator actors'],
            'not_modelled': ['power loss below SQLite',
                             'concurrent upgraders', 'PostgreSQL / MySQL'],
        },
    }
    if hasattr(prop, 'extra_evidence'):
        cov.update(prop.extra_evidence(stats))
    evidence = {
        'property_id': pid,
        'tier': tier,
        'seed': seed,
        'level': prop.LEVEL,
        'coverage': cov,
        'assumptions': prop.ASSUMPTIONS,
        'wall_s': round(wall, 2),
        'violations': len(reported),
    }
    if not os.environ.get('EVOSIM_NO_EVIDENCE'):
        os.makedirs(EVIDENCE_DIR, exist_ok=True)
        with open(os.path.join(EVIDENCE_DIR, '%s.json' % pid), 'w') as fp:
            json.dump(evidence, fp, indent=1, sort_keys=True, default=repr)
    out.write('%s %s seed=%d: %d scenarios, %d runs, %d distinct shapes, '
              '%d violation(s), %d known, %d harness error(s), %.1fs%s\n'
              % (pid, tier, seed, evaluations, runs, len(shapes),
                 len(reported), len(known_hits),
                 len(errors) + len(harness_nonreplay), wall,
                 ' INCOMPLETE' if incomplete else ''))
    if reported:
        return 1
    # never exit 0 on a run that did not do its job: no scenario executed,
    # violations that do not replay, or more than a few harness errors
    if evaluations == 0 or harness_nonreplay or \
            len(errors) > max(2, evaluations // 50) or \
            evaluations < min(count, 20):
        return 2
    return 0
