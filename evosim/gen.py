"""Seeded generators: model sets, rows, valid mutation sequences (planner with
detours), swarm configurations.  Pure functions of a random.Random.

The generator keeps a spec-level model of the project (evosim.spec) so every
mutation it emits is valid by the generator's own semantics.
"""
import copy
import random

from evosim import spec
from evosim.spec import SpecError

FIELD_NAMES = ['a', 'b', 'c', 'ab', 'a2', 'd', 'e']
REL_NAMES = ['ref', 'link', 'owner']
M2M_NAMES = ['tags', 'peers']
MODEL_NAMES = ['Item', 'Itemx', 'Item2', 'Part', 'Node']
PLAIN_KINDS = ['Char', 'Text', 'Integer', 'BigInteger', 'PositiveInteger',
               'Boolean', 'Decimal', 'DateTime']

VALUE_POOL = {
    'Char': ['', 'x', "a'b", 'p%q', 'ü', 'zz', '"q"', 'a\\b'],
    'Text': ['', 'long text', "it's", '100%', 'ünï', 'line\nbreak'],
    'Integer': [0, 1, -1, 7, 2147483647, -2147483648, 42],
    'BigInteger': [0, 5, -9, 9223372036854775807, 1 << 40],
    'PositiveInteger': [0, 1, 3, 2147483647, 99],
    'Boolean': [0, 1],
    'Decimal': [0, 1.5, -2.25, 100],
    'DateTime': ['2021-02-03 04:05:06', '1999-12-31 23:59:59'],
}
# '%' inside an index condition / check constraint literal breaks statement
# execution (a separate, recorded finding); kept out of Q values so that it
# does not drown everything else.
Q_CHAR_VALUES = ['', 'x', "a'b", 'ü', 'zz', '"q"']
INITIAL_POOL = {
    'Char': ['x', '', "a'b", 'p%q', 'ü'],
    'Text': ['t', '', "it's 100%"],
    'Integer': [0, 7, -3],
    'BigInteger': [0, 1 << 40],
    'PositiveInteger': [0, 9],
    'Boolean': [True, False],
    'Decimal': [0, 2],
    'DateTime': ['2021-02-03 04:05:06'],
}


def default_config():
    return {
        'kinds': list(PLAIN_KINDS),
        'relations': True,
        'm2m': True,
        'meta': ['unique_together', 'index_together', 'indexes',
                 'constraints'],
        'index_conditions': True,
        'db_table': True,
        'db_column': True,
        'ops': {'AddField': 5, 'DeleteField': 3, 'RenameField': 3,
                'ChangeField': 5, 'ChangeMeta': 3, 'RenameModel': 1,
                'DeleteModel': 1, 'NewModel': 0, 'SQLMutation': 0},
        'type_changes': True,
        'max_models': 3,
        'max_fields': 4,
        'max_rows': 6,
        'rename_model_with_m2m': False,
        'xor': True,
        'expressions': True,
        'deferrable': True,
        'mutate_after_rename': False,
    }


def swarm_config(rng, base=None):
    """Draw a configuration: which features are enabled in this scenario."""
    cfg = copy.deepcopy(base or default_config())
    k = rng.randint(2, len(PLAIN_KINDS))
    cfg['kinds'] = sorted(rng.sample(PLAIN_KINDS, k))
    cfg['relations'] = rng.random() < 0.6
    cfg['m2m'] = cfg['relations'] and rng.random() < 0.5
    cfg['meta'] = [m for m in cfg['meta'] if rng.random() < 0.5]
    cfg['index_conditions'] = rng.random() < 0.5
    cfg['db_table'] = rng.random() < 0.4
    cfg['db_column'] = rng.random() < 0.4
    cfg['type_changes'] = rng.random() < 0.4
    cfg['expressions'] = rng.random() < 0.3
    cfg['deferrable'] = rng.random() < 0.3
    if rng.random() < 0.4:
        # a configuration in which table rebuilds are lossless as far as the
        # known rebuild finding goes: no Meta-level indexes/constraints and
        # no column CHECKs, so every other rule is strict (DESIGN 2.5)
        cfg['meta'] = []
        cfg['kinds'] = [k2 for k2 in cfg['kinds']
                        if k2 != 'PositiveInteger'] or ['Integer']
        cfg['clean_rebuild'] = True
    for op in list(cfg['ops']):
        if cfg['ops'][op] and rng.random() < 0.25:
            cfg['ops'][op] = 0
    if not any(cfg['ops'].values()):
        cfg['ops']['AddField'] = 1
    cfg['max_models'] = rng.choice([1, 2, 2, 3])
    cfg['max_rows'] = rng.choice([0, 2, 4, 6])
    return cfg


class Gen(object):
    def __init__(self, rng, cfg=None):
        self.rng = rng
        self.cfg = cfg or default_config()
        self.counter = 0

    # -- names ---------------------------------------------------------------
    def uniq(self, prefix):
        self.counter += 1
        return '%s%d' % (prefix, self.counter)

    # -- Q-trees ---------------------------------------------------------------
    def gen_q(self, model, depth=0, allow_xor=True):
        rng = self.rng
        plain = [f for f in model['fields']
                 if f['kind'] in ('Integer', 'BigInteger', 'PositiveInteger',
                                  'Char', 'Boolean')]
        if not plain:
            return None
        if depth >= 3 or (depth >= 2 and not self.cfg.get('q_wrap')) \
                or rng.random() < 0.55:
            f = rng.choice(plain)
            if f['kind'] == 'Char':
                look = rng.choice(['exact', 'exact', 'isnull'])
                if look == 'isnull':
                    return {'q': 'leaf', 'k': f['name'] + '__isnull',
                            'v': rng.choice([True, False])}
                if look == 'in':
                    return {'q': 'leaf', 'k': f['name'] + '__in',
                            'v': rng.sample(VALUE_POOL['Char'], 2)}
                return {'q': 'leaf', 'k': f['name'],
                        'v': rng.choice(Q_CHAR_VALUES)}
            if f['kind'] == 'Boolean':
                return {'q': 'leaf', 'k': f['name'],
                        'v': rng.choice([True, False])}
            look = rng.choice(['exact', 'gt', 'gte', 'lt', 'lte', 'isnull'])
            if look == 'isnull':
                return {'q': 'leaf', 'k': f['name'] + '__isnull',
                        'v': rng.choice([True, False])}
            if look == 'in':
                return {'q': 'leaf', 'k': f['name'] + '__in',
                        'v': sorted(rng.sample([0, 1, 3, 7, 42, 99], 2))}
            k = f['name'] if look == 'exact' else f['name'] + '__' + look
            return {'q': 'leaf', 'k': k,
                    'v': rng.choice([0, 1, 5, 100, -1])}
        r = rng.random()
        if r < 0.25:
            c = self.gen_q(model, depth + 1, allow_xor)
            return {'q': 'not', 'c': c}
        if r < 0.42 and self.cfg.get('q_wrap'):
            c = self.gen_q(model, depth + 1, allow_xor)
            return {'q': 'wrap', 'c': c}
        if r < 0.50 and self.cfg.get('q_conn1'):
            c = self.gen_q(model, 2, allow_xor)        # a leaf
            if c and c['q'] == 'leaf':
                return {'q': 'conn1', 'c': c,
                        'op': rng.choice(['or', 'xor'] if allow_xor and
                                         self.cfg.get('xor') else ['or'])}
        ops = ['and', 'or']
        if allow_xor and self.cfg.get('xor'):
            ops.append('xor')
        op = rng.choice(ops)
        n = rng.choice([2, 2, 3])
        return {'q': op,
                'c': [self.gen_q(model, depth + 1, allow_xor)
                      for _ in range(n)]}

    # -- fields ----------------------------------------------------------------
    def gen_field(self, name, kind, state=None, app=None, model=None,
                  nullable=None):
        rng = self.rng
        attrs = {}
        f = {'name': name, 'kind': kind, 'attrs': attrs}
        if kind == 'Char':
            attrs['max_length'] = rng.choice([5, 20, 100])
        if kind == 'Decimal':
            attrs['max_digits'] = rng.choice([6, 10])
            attrs['decimal_places'] = rng.choice([0, 2])
        if kind == 'ManyToMany':
            if self.cfg['db_table'] and rng.random() < 0.3:
                attrs['db_table'] = self.uniq('m2m_t')
            return f
        if nullable is None:
            nullable = rng.random() < 0.4
        if nullable and kind != 'Boolean':
            attrs['null'] = True
        if self.cfg.get('plain_fields'):
            return f
        if kind in spec.FK_KINDS:
            if rng.random() < 0.2 and kind == 'ForeignKey':
                attrs['db_index'] = False
        else:
            if rng.random() < 0.25 and kind != 'Text':
                attrs['db_index'] = True
            if rng.random() < 0.15 and kind not in ('Text', 'Boolean'):
                attrs['unique'] = True
        if self.cfg['db_column'] and rng.random() < 0.2:
            attrs['db_column'] = self.uniq('col_')
        return f

    def free_field_name(self, model, pool):
        if pool is FIELD_NAMES and self.cfg.get('field_names'):
            pool = self.cfg['field_names']
        used = {f['name'] for f in model['fields']}
        cand = [n for n in pool if n not in used]
        if not cand:
            return None
        return self.rng.choice(cand)

    # -- meta --------------------------------------------------------------------
    def plain_names(self, model):
        return [f['name'] for f in model['fields']
                if f['kind'] != 'ManyToMany']

    def gen_together(self, model):
        names = self.plain_names(model)
        if len(names) < 2:
            return None
        return self.rng.sample(names, 2)

    def gen_index(self, model):
        rng = self.rng
        names = [f['name'] for f in model['fields']
                 if f['kind'] not in ('ManyToMany', 'Text')]
        if not names:
            return None
        n = 1 if len(names) == 1 else rng.choice([1, 2])
        fields = rng.sample(names, n)
        fields = [('-' + x) if rng.random() < 0.3 else x for x in fields]
        ix = {'fields': fields}
        ints = [f['name'] for f in model['fields']
                if f['kind'] in ('Integer', 'BigInteger', 'PositiveInteger')]
        if self.cfg.get('expressions') and len(ints) >= 2 and \
                rng.random() < 0.3:
            a, b = rng.sample(ints, 2)
            return {'name': self.uniq('ix_'),
                    'expressions': [{'op': rng.choice(['+', '-', '*']),
                                     'l': {'f': a}, 'r': {'f': b}}]}
        if rng.random() < 0.8:
            ix['name'] = self.uniq('ix_')
        if self.cfg['index_conditions'] and rng.random() < 0.4:
            q = self.gen_q(model, allow_xor=False)
            if q:
                ix['condition'] = q
                ix.setdefault('name', self.uniq('ix_'))
        return ix

    def gen_constraint(self, model, rows=None):
        rng = self.rng
        if rng.random() < 0.5:
            q = self.gen_q(model)
            if not q:
                return None
            return {'kind': 'check', 'name': self.uniq('ck_'), 'check': q}
        names = [f['name'] for f in model['fields']
                 if f['kind'] not in ('ManyToMany', 'Text')]
        if not names:
            return None
        n = 1 if len(names) == 1 else rng.choice([1, 2])
        c = {'kind': 'unique', 'name': self.uniq('uq_'),
             'fields': rng.sample(names, n)}
        if self.cfg['index_conditions'] and rng.random() < 0.4:
            q = self.gen_q(model, allow_xor=False)
            if q:
                c['condition'] = q
        elif self.cfg.get('deferrable') and rng.random() < 0.3:
            c['deferrable'] = rng.choice(['DEFERRED', 'IMMEDIATE'])
        return c

    def gen_meta(self, app, model):
        rng = self.rng
        meta = {}
        feats = self.cfg['meta']
        if self.cfg['db_table'] and rng.random() < 0.3:
            meta['db_table'] = self.uniq('t_')
        if 'unique_together' in feats and rng.random() < 0.4:
            t = self.gen_together(model)
            if t:
                meta['unique_together'] = [t]
        if 'index_together' in feats and rng.random() < 0.3:
            t = self.gen_together(model)
            if t:
                meta['index_together'] = [t]
        if 'indexes' in feats and rng.random() < 0.4:
            ixs = [self.gen_index(model)
                   for _ in range(rng.choice([1, 1, 2]))]
            ixs = [i for i in ixs if i]
            if ixs:
                meta['indexes'] = ixs
        if 'constraints' in feats and rng.random() < 0.4:
            cs = [self.gen_constraint(model)
                  for _ in range(rng.choice([1, 1, 2]))]
            cs = [c for c in cs if c]
            if cs:
                meta['constraints'] = cs
        return meta

    # -- model sets ------------------------------------------------------------
    def gen_model(self, app, name, others):
        """others: list of 'app.Model' references that may be related to."""
        rng = self.rng
        cfg = self.cfg
        m = {'name': name, 'fields': [], 'meta': {}}
        nf = rng.randint(1, cfg['max_fields'])
        for _ in range(nf):
            n = self.free_field_name(m, FIELD_NAMES)
            if n is None:
                break
            m['fields'].append(self.gen_field(n, rng.choice(cfg['kinds'])))
        if cfg['relations'] and others:
            if rng.random() < 0.6:
                n = self.free_field_name(m, REL_NAMES)
                f = self.gen_field(n, rng.choice(['ForeignKey', 'ForeignKey',
                                                  'OneToOne']))
                f['to'] = rng.choice(others)
                m['fields'].append(f)
            for p_m2m in (0.4, 0.35):
                if cfg['m2m'] and rng.random() < p_m2m:
                    n = self.free_field_name(m, M2M_NAMES)
                    if n is None:
                        break
                    f = self.gen_field(n, 'ManyToMany')
                    f['to'] = rng.choice(others)
                    m['fields'].append(f)
                else:
                    break
        m['meta'] = self.gen_meta(app, m)
        return m

    def gen_state(self, apps):
        """Random project state over the given app labels (retries until
        the draw is valid by the generator's own rules)."""
        for _ in range(50):
            try:
                return self._gen_state(apps)
            except SpecError:
                continue
        raise SpecError('could not draw a valid state')

    def _gen_state(self, apps):
        rng = self.rng
        st = {'apps': {}}
        refs = []
        for a in apps:
            st['apps'][a] = {'models': [], 'pkg': a}
            n = rng.randint(1, self.cfg['max_models'])
            names = rng.sample(MODEL_NAMES, n)
            for name in names:
                own = '%s.%s' % (a, name)
                cand = list(refs)
                if rng.random() < 0.2:
                    cand.append(own)      # self relation
                m = self.gen_model(a, name, cand)
                st['apps'][a]['models'].append(m)
                refs.append(own)
        spec.validate_state(st)
        return st

    # -- rows --------------------------------------------------------------------
    def gen_rows(self, state):
        """rows: {table: [ {col: value} ]}; parents first so FKs resolve."""
        rng = self.rng
        rows = {}
        maxr = self.cfg['max_rows']
        order = []
        for a in sorted(state['apps']):
            for m in state['apps'][a]['models']:
                order.append((a, m))
        # first pass: plain rows
        for a, m in order:
            t = spec.table_name(a, m)
            n = rng.randint(0, maxr) if maxr else 0
            rows[t] = [{'id': i + 1} for i in range(n)]
        for a, m in order:
            t = spec.table_name(a, m)
            for f in m['fields']:
                if f['kind'] == 'ManyToMany':
                    continue
                col = spec.column_name(f)
                seen = set()
                for r in rows[t]:
                    r[col] = self._row_value(f, state, rows, seen, r)
        # enforce multi-column uniqueness by dropping offending rows
        for a, m in order:
            t = spec.table_name(a, m)
            rows[t] = _dedupe(a, m, rows[t])
        # fix FK values that point at dropped rows
        for a, m in order:
            t = spec.table_name(a, m)
            for f in m['fields']:
                if f['kind'] in spec.FK_KINDS:
                    col = spec.column_name(f)
                    ta, tm = f['to'].split('.')
                    pt = spec.table_name(ta, spec.find_model(
                        state['apps'][ta]['models'], tm))
                    pks = {r['id'] for r in rows[pt]}
                    keep = []
                    for r in rows[t]:
                        if r[col] is None or r[col] in pks:
                            keep.append(r)
                    rows[t] = keep
        # cascading removal may need a second pass; iterate to a fixpoint
        changed = True
        while changed:
            changed = False
            for a, m in order:
                t = spec.table_name(a, m)
                for f in m['fields']:
                    if f['kind'] in spec.FK_KINDS:
                        col = spec.column_name(f)
                        ta, tm = f['to'].split('.')
                        pt = spec.table_name(ta, spec.find_model(
                            state['apps'][ta]['models'], tm))
                        pks = {r['id'] for r in rows[pt]}
                        keep = [r for r in rows[t]
                                if r[col] is None or r[col] in pks]
                        if len(keep) != len(rows[t]):
                            rows[t] = keep
                            changed = True
        # m2m
        for a, m in order:
            t = spec.table_name(a, m)
            for f in m['fields']:
                if f['kind'] != 'ManyToMany':
                    continue
                mt = spec.m2m_table(a, m, f)
                c1, c2 = spec.m2m_columns(a, m, f)
                ta, tm = f['to'].split('.')
                pt = spec.table_name(ta, spec.find_model(
                    state['apps'][ta]['models'], tm))
                pairs = [(r1['id'], r2['id']) for r1 in rows[t]
                         for r2 in rows[pt]]
                rng.shuffle(pairs)
                pairs = sorted(pairs[:rng.randint(0, min(4, len(pairs)))])
                rows[mt] = [{'id': i + 1, c1: p[0], c2: p[1]}
                            for i, p in enumerate(pairs)]
        return rows

    def _row_value(self, f, state, rows, seen, row):
        rng = self.rng
        kind = f['kind']
        attrs = f['attrs']
        if kind in spec.FK_KINDS:
            ta, tm = f['to'].split('.')
            pt = spec.table_name(ta, spec.find_model(
                state['apps'][ta]['models'], tm))
            pks = [r['id'] for r in rows.get(pt, [])]
            uniq = kind == 'OneToOne' or attrs.get('unique')
            if uniq:
                pks = [p for p in pks if p not in seen]
            if attrs.get('null') and (not pks or rng.random() < 0.3):
                return None
            if not pks:
                return -1       # removed by the FK fix-up pass
            v = rng.choice(pks)
            seen.add(v)
            return v
        if attrs.get('null') and rng.random() < 0.3:
            return None
        pool = VALUE_POOL[kind]
        if kind == 'Char':
            pool = [v for v in pool if len(v) <= attrs.get('max_length', 99)]
        if attrs.get('unique'):
            pool = [v for v in pool if v not in seen]
            if not pool:
                v = 'u%d' % row['id'] if kind in ('Char', 'Text') \
                    else 1000 + row['id']
                seen.add(v)
                return v
        v = rng.choice(pool)
        seen.add(v)
        return v

    # -- mutations ---------------------------------------------------------------
    def initial_for(self, kind):
        return self.rng.choice(INITIAL_POOL[kind])

    def gen_mutation(self, state, app, rows=None, ops=None, frozen=()):
        """One valid mutation for app in state, or None.  rows (optional)
        is the row model: used to avoid data conflicts.  frozen: model
        names that must not be named (renamed / created in this step: the
        evolver drops mutations naming models absent from the stored
        signature)."""
        rng = self.rng
        weights = dict(ops or self.cfg['ops'])
        models = [m for m in state['apps'][app]['models']
                  if m['name'] not in frozen]
        for _ in range(12):
            avail = [(k, w) for k, w in sorted(weights.items()) if w > 0]
            if not avail:
                return None
            op = _weighted(rng, avail)
            fn = getattr(self, 'mut_' + op)
            try:
                m = fn(state, app, models, rows)
            except SpecError:
                m = None
            if m is None:
                continue
            try:
                new = spec.apply_mutation(state, app, m)
                spec.validate_state(new)
            except SpecError:
                continue
            return m
        return None

    def mut_AddField(self, state, app, models, rows):
        rng = self.rng
        if not models:
            return None
        m = rng.choice(models)
        r = rng.random()
        table = spec.table_name(app, m)
        if self.cfg['relations'] and r < 0.2:
            targets = ['%s.%s' % (a, mm['name'])
                       for a in sorted(state['apps'])
                       for mm in state['apps'][a]['models']]
            # a relation to a model that is itself created during the
            # history would need a declared cross-app dependency (C09's
            # subject): not generated here
            targets = [t for t in targets
                       if t not in getattr(self, 'new_model_refs', ())]
            if not targets:
                return None
            if self.cfg['m2m'] and rng.random() < 0.4:
                n = self.free_field_name(m, M2M_NAMES)
                if n is None:
                    return None
                f = self.gen_field(n, 'ManyToMany')
                f['to'] = rng.choice(targets)
                return {'op': 'AddField', 'model': m['name'], 'field': f}
            n = self.free_field_name(m, REL_NAMES)
            if n is None:
                return None
            f = self.gen_field(n, rng.choice(['ForeignKey', 'OneToOne']),
                               nullable=True)
            f['to'] = rng.choice(targets)
            f['attrs']['null'] = True
            f['attrs'].pop('unique', None)
            mut = {'op': 'AddField', 'model': m['name'], 'field': f}
            if rows is not None and rng.random() < 0.4:
                # a nullable relation may still declare an initial value:
                # every existing row then points at that parent row
                ta, tm = f['to'].split('.')
                tmodel = spec.find_model(state['apps'][ta]['models'], tm)
                parents = rows.get(spec.table_name(ta, tmodel), []) \
                    if tmodel else []
                nrows = len(rows.get(table, []))
                if parents and (f['kind'] == 'ForeignKey' or nrows <= 1):
                    mut['initial'] = parents[0]['id']
            return mut
        n = self.free_field_name(m, FIELD_NAMES)
        if n is None:
            return None
        kind = rng.choice(self.cfg['kinds'])
        f = self.gen_field(n, kind)
        mut = {'op': 'AddField', 'model': m['name'], 'field': f}
        nrows = len((rows or {}).get(table, [])) if rows is not None else 2
        if f['attrs'].get('unique') and nrows > 1:
            # every existing row gets the same initial -> only NULL is safe
            if kind == 'Boolean':
                f['attrs'].pop('unique')
            else:
                f['attrs']['null'] = True
                return mut
        if not f['attrs'].get('null'):
            mut['initial'] = self.initial_for(kind)
            if kind == 'Char' and len(mut['initial']) > f['attrs'][
                    'max_length']:
                mut['initial'] = 'x'
        elif rng.random() < 0.4 and not f['attrs'].get('unique'):
            mut['initial'] = self.initial_for(kind)
        return mut

    def mut_DeleteField(self, state, app, models, rows):
        rng = self.rng
        cands = []
        for m in models:
            inmeta = spec.fields_in_meta(m)
            for f in m['fields']:
                used = [u for u in inmeta.get(f['name'], [])
                        if u != 'unique_together']
                if not used:
                    cands.append((m, f))
        if not cands:
            return None
        m, f = rng.choice(cands)
        # DeleteField shrinks every unique_together tuple naming the field:
        # the remaining columns must already be unique in the rows
        trows = (rows or {}).get(spec.table_name(app, m), [])
        for t in (m.get('meta') or {}).get('unique_together') or []:
            if f['name'] in t:
                rest = [n for n in t if n != f['name']]
                if rest and not _unique_ok(m, rest, trows):
                    return None
        return {'op': 'DeleteField', 'model': m['name'], 'name': f['name']}

    def mut_RenameField(self, state, app, models, rows):
        rng = self.rng
        cands = []
        for m in models:
            inmeta = spec.fields_in_meta(m)
            for f in m['fields']:
                if not inmeta.get(f['name']):
                    cands.append((m, f))
        if not cands:
            return None
        m, f = rng.choice(cands)
        pool = (M2M_NAMES if f['kind'] == 'ManyToMany' else
                REL_NAMES if f['kind'] in spec.FK_KINDS else FIELD_NAMES)
        new = self.free_field_name(m, (self.cfg.get('field_names') or pool) + ['z'] if pool is FIELD_NAMES else pool + ['z'])
        if new is None:
            return None
        mut = {'op': 'RenameField', 'model': m['name'], 'old': f['name'],
               'new': new}
        r = rng.random()
        if f['kind'] == 'ManyToMany':
            if r < 0.5:
                # keep the table where it is
                mut['db_table'] = spec.m2m_table(app, m, f)
        else:
            if r < 0.35:
                mut['db_column'] = spec.column_name(f)    # keep column
            elif r < 0.5 and self.cfg['db_column']:
                mut['db_column'] = self.uniq('col_')
        return mut

    def mut_ChangeField(self, state, app, models, rows):
        rng = self.rng
        cands = [(m, f) for m in models for f in m['fields']
                 if not (self.cfg.get('change_attrs')
                         and f['kind'] == 'ManyToMany')]
        if not cands:
            return None
        m, f = rng.choice(cands)
        table = spec.table_name(app, m)
        trows = (rows or {}).get(table, []) if rows is not None else None
        kind = f['kind']
        attrs = f['attrs']
        mut = {'op': 'ChangeField', 'model': m['name'], 'name': f['name'],
               'attrs': {}}
        if kind == 'ManyToMany':
            mut['attrs']['db_table'] = self.uniq('m2m_t')
            return mut
        choices = ['null', 'db_index', 'db_column']
        if kind not in ('Text', 'Boolean') and kind not in spec.FK_KINDS:
            choices.append('unique')
        if kind == 'Char':
            choices += ['max_length', 'max_length']
        if kind == 'Decimal':
            choices.append('decimal')
        if self.cfg['type_changes'] and kind in ('Char', 'Text', 'Integer',
                                                 'BigInteger'):
            choices.append('type')
        if not self.cfg['db_column']:
            choices.remove('db_column')
        if self.cfg.get('change_attrs'):
            choices = [c for c in choices if c in self.cfg['change_attrs']]
            if not choices:
                return None
        k = rng.choice([1, 1, 2])
        picked = rng.sample(choices, min(k, len(choices)))
        col = spec.column_name(f)
        for c in picked:
            if c == 'null':
                if attrs.get('null'):
                    mut['attrs']['null'] = False
                    if kind in spec.FK_KINDS:
                        if trows is None:
                            return None
                        if any(r[col] is None for r in trows):
                            ta, tm = f['to'].split('.')
                            pt = spec.table_name(ta, spec.find_model(
                                state['apps'][ta]['models'], tm))
                            pks = [r['id'] for r in rows.get(pt, [])]
                            if not pks or kind == 'OneToOne' or attrs.get(
                                    'unique'):
                                return None
                            mut['initial'] = pks[0]
                        else:
                            mut['initial'] = 1
                    else:
                        mut['initial'] = self.initial_for(kind)
                        if kind == 'Char' and len(mut['initial']) > attrs[
                                'max_length']:
                            mut['initial'] = 'x'
                        if (attrs.get('unique') or 'unique' in picked) and \
                                trows is not None and sum(
                                    1 for r in trows if r[col] is None) + sum(
                                    1 for r in trows
                                    if r[col] == mut['initial']) > 1:
                            return None
                elif kind != 'Boolean':
                    mut['attrs']['null'] = True
            elif c == 'db_index':
                cur = attrs.get('db_index', kind in spec.FK_KINDS)
                mut['attrs']['db_index'] = not cur
            elif c == 'unique':
                if attrs.get('unique'):
                    mut['attrs']['unique'] = False
                else:
                    if trows is None:
                        continue
                    vals = [r[col] for r in trows if r[col] is not None]
                    if len(vals) != len(set(vals)):
                        continue
                    mut['attrs']['unique'] = True
            elif c == 'db_column':
                if attrs.get('db_column') and rng.random() < 0.4:
                    # back to the default column name, stated as None
                    mut['attrs']['db_column'] = None
                else:
                    mut['attrs']['db_column'] = self.uniq('col_')
            elif c == 'max_length':
                cur = attrs['max_length']
                new = rng.choice([x for x in (5, 20, 100, 200) if x != cur])
                if trows is not None and any(
                        r[col] is not None and len(r[col]) > new
                        for r in trows):
                    new = 200
                mut['attrs']['max_length'] = new
            elif c == 'decimal':
                mut['attrs']['max_digits'] = attrs['max_digits'] + 2
                if rng.random() < 0.5:
                    mut['attrs']['decimal_places'] = \
                        attrs['decimal_places'] + 1
            elif c == 'type':
                new_kind = {'Char': 'Text', 'Text': 'Char',
                            'Integer': 'BigInteger',
                            'BigInteger': 'Integer'}[kind]
                if spec.fields_in_meta(m).get(f['name']):
                    return None
                mut['kind'] = new_kind
        if mut.get('kind'):
            # a type change replaces the attribute set: restate what stays
            keep = {}
            for key in ('null', 'db_index', 'unique', 'db_column'):
                if key in attrs:
                    keep[key] = attrs[key]
            if mut['kind'] == 'Text':
                keep.pop('db_index', None)
                keep.pop('unique', None)
            if mut['kind'] == 'Char':
                keep['max_length'] = 200
            keep.update({k2: v for k2, v in mut['attrs'].items()
                         if k2 != 'max_length'})
            if mut['kind'] == 'Text':
                keep.pop('db_index', None)
                keep.pop('unique', None)
            if rng.random() < 0.5:
                # ... or do not restate it: the attribute silently returns
                # to its default together with the type change (what a
                # hinted evolution does)
                for key in ('db_index', 'unique'):
                    if key in keep and key not in mut['attrs'] and \
                            rng.random() < 0.6:
                        del keep[key]
                if keep.get('null') is True and 'null' not in mut['attrs'] \
                        and trows is not None and \
                        not any(r.get(col) is None for r in trows) and \
                        rng.random() < 0.6:
                    del keep['null']
            mut['attrs'] = keep
        if not mut['attrs'] and not mut.get('kind'):
            return None
        if mut['attrs'].get('null') is not False:
            mut.pop('initial', None)
        return mut

    def mut_ChangeMeta(self, state, app, models, rows):
        rng = self.rng
        feats = self.cfg['meta']
        if not feats or not models:
            return None
        m = rng.choice(models)
        table = spec.table_name(app, m)
        trows = (rows or {}).get(table, []) if rows is not None else []
        prop = rng.choice(feats)
        meta = m.get('meta') or {}
        cur = copy.deepcopy(meta.get(prop) or [])
        r = rng.random()
        if prop in ('unique_together', 'index_together') and \
                self.cfg.get('meta_multi') and rng.random() < 0.6:
            # replace the whole list by 2-3 fresh tuples at once (set-typed
            # intermediates in SQL generation: C14)
            new = []
            for _ in range(rng.choice([2, 3, 3])):
                t = self.gen_together(m)
                if t and t not in new and sorted(t) not in [sorted(x)
                                                            for x in new]:
                    if prop == 'unique_together' and not _unique_ok(
                            m, t, trows):
                        continue
                    new.append(t)
            if len(new) < 2 or new == cur:
                return None
            return {'op': 'ChangeMeta', 'model': m['name'], 'prop': prop,
                    'value': new}
        if prop in ('unique_together', 'index_together'):
            multi = [x for x in cur if len(x) >= 2
                     and list(reversed(x)) not in [list(y) for y in cur]]
            if multi and rng.random() < 0.3:
                # the same columns in another order: a different index
                cur.append(list(reversed(rng.choice(multi))))
            elif cur and r < 0.4:
                cur.pop(rng.randrange(len(cur)))
            else:
                t = self.gen_together(m)
                if not t or t in cur:
                    return None
                if prop == 'unique_together' and not _unique_ok(
                        m, t, trows):
                    return None
                if cur and r < 0.6:
                    cur[rng.randrange(len(cur))] = t
                else:
                    cur.append(t)
        elif prop == 'indexes':
            if cur and r < 0.4:
                cur.pop(rng.randrange(len(cur)))
            else:
                ix = self.gen_index(m)
                if not ix:
                    return None
                if cur and r < 0.6:
                    cur[rng.randrange(len(cur))] = ix
                else:
                    cur.append(ix)
        else:
            if cur and r < 0.4:
                cur.pop(rng.randrange(len(cur)))
            else:
                c = self.gen_constraint(m)
                if not c:
                    return None
                if not _constraint_ok(m, c, trows):
                    return None
                if cur and r < 0.6:
                    cur[rng.randrange(len(cur))] = c
                else:
                    cur.append(c)
        if cur == (meta.get(prop) or []):
            return None
        return {'op': 'ChangeMeta', 'model': m['name'], 'prop': prop,
                'value': cur}

    def mut_RenameModel(self, state, app, models, rows):
        rng = self.rng
        cands = []
        for m in models:
            ref = '%s.%s' % (app, m['name'])
            has_m2m = any(f['kind'] == 'ManyToMany' for f in m['fields'])
            m2m_target = any(
                f['kind'] == 'ManyToMany' and f.get('to') == ref
                for a in state['apps'] for mm in state['apps'][a]['models']
                for f in mm['fields'])
            if (has_m2m or m2m_target) and not self.cfg[
                    'rename_model_with_m2m']:
                continue
            cands.append(m)
        if not cands:
            return None
        m = rng.choice(cands)
        used = {mm['name'] for mm in models}
        free = [n for n in MODEL_NAMES + ['Zed'] if n not in used]
        if not free:
            return None
        new = rng.choice(free)
        if rng.random() < 0.5:
            db_table = spec.table_name(app, m)
        else:
            db_table = '%s_%s' % (app, new.lower())
        return {'op': 'RenameModel', 'old': m['name'], 'new': new,
                'db_table': db_table}

    def mut_DeleteModel(self, state, app, models, rows):
        rng = self.rng
        cands = []
        for m in models:
            ref = '%s.%s' % (app, m['name'])
            refs = [x for x in spec.relations_to(state, ref)
                    if not (x[0] == app and x[1] == m['name'])]
            if not refs:
                cands.append(m)
        if len(models) < 2 or not cands:
            return None
        m = rng.choice(cands)
        return {'op': 'DeleteModel', 'model': m['name']}

    def mut_NewModel(self, state, app, models, rows):
        used = {mm['name'] for mm in models}
        free = [n for n in MODEL_NAMES + ['Zed'] if n not in used]
        if not free or len(models) >= 4:
            return None
        name = self.rng.choice(free)
        others = ['%s.%s' % (a, mm['name']) for a in sorted(state['apps'])
                  for mm in state['apps'][a]['models']]
        others = [t for t in others
                  if t not in getattr(self, 'new_model_refs', ())]
        m = self.gen_model(app, name, others)
        if not hasattr(self, 'new_model_refs'):
            self.new_model_refs = set()
        self.new_model_refs.add('%s.%s' % (app, name))
        return {'op': 'NewModel', 'model': m}

    def mut_SQLMutation(self, state, app, models, rows):
        tag = self.uniq('sql')
        return {'op': 'SQLMutation', 'tag': tag,
                'sql': ['UPDATE "django_content_type" SET "model" = "model" '
                        'WHERE 1 = 0 -- %s' % tag]}

    # -- sequences ---------------------------------------------------------------
    def gen_sequence(self, state, app, n, rows=None, ops=None):
        """n valid mutations applied in order; returns (mutations, final
        state, final rows)."""
        from evosim import rowmodel
        muts = []
        rows = copy.deepcopy(rows) if rows is not None else None
        frozen = set()
        for _ in range(n):
            m = self.gen_mutation(state, app, rows, ops, frozen)
            if m is None:
                break
            if not self.cfg.get('mutate_after_rename'):
                if m['op'] == 'RenameModel':
                    frozen.add(m['new'])
                if m['op'] == 'NewModel':
                    frozen.add(m['model']['name'])
            new = spec.apply_mutation(state, app, m)
            if rows is not None:
                rows = rowmodel.apply(rows, state, new, app, m)
            state = new
            muts.append(m)
        return muts, state, rows


def _weighted(rng, pairs):
    total = sum(w for _, w in pairs)
    x = rng.random() * total
    for k, w in pairs:
        x -= w
        if x <= 0:
            return k
    return pairs[-1][0]


def _dedupe(app, m, trows):
    """Drop rows violating unique_together / unique constraints (ignoring
    conditions: stricter than needed)."""
    groups = []
    meta = m.get('meta') or {}
    for t in meta.get('unique_together') or []:
        groups.append(list(t))
    for c in meta.get('constraints') or []:
        if c['kind'] == 'unique':
            groups.append(list(c['fields']))
    for c in meta.get('constraints') or []:
        if c['kind'] == 'check':
            trows = [r for r in trows if q_eval(m, c['check'], r) is not False]
    if not groups:
        return trows
    cols = {f['name']: spec.column_name(f) for f in m['fields']
            if f['kind'] != 'ManyToMany'}
    cols['id'] = 'id'
    out = []
    seen = [set() for _ in groups]
    for r in trows:
        ok = True
        keys = []
        for i, g in enumerate(groups):
            key = tuple(r[cols[n]] for n in g)
            keys.append(key)
            if None in key:
                continue
            if key in seen[i]:
                ok = False
        if ok:
            for i, key in enumerate(keys):
                if None not in key:
                    seen[i].add(key)
            out.append(r)
    return out


def _unique_ok(m, names, trows):
    cols = {f['name']: spec.column_name(f) for f in m['fields']
            if f['kind'] != 'ManyToMany'}
    cols['id'] = 'id'
    seen = set()
    for r in trows:
        key = tuple(r[cols[n]] for n in names)
        if None in key:
            continue
        if key in seen:
            return False
        seen.add(key)
    return True


def _constraint_ok(m, c, trows):
    if c['kind'] == 'unique':
        # conservative: ignore the condition
        return _unique_ok(m, c['fields'], trows)
    for r in trows:
        if q_eval(m, c['check'], r) is False:
            return False
    if trows and _has_xor(c['check']):
        return False
    return True


def _has_xor(q):
    if q['q'] == 'leaf':
        return False
    if q['q'] == 'conn1':
        return q['op'] == 'xor'
    if q['q'] in ('not', 'wrap'):
        return _has_xor(q['c'])
    return q['q'] == 'xor' or any(_has_xor(c) for c in q['c'])


def q_eval(m, q, row):
    """Three-valued evaluation of a Q-tree on a row (True/False/None)."""
    cols = {f['name']: spec.column_name(f) for f in m['fields']
            if f['kind'] != 'ManyToMany'}
    cols['id'] = 'id'
    t = q['q']
    if t == 'leaf':
        parts = q['k'].split('__')
        v = row.get(cols[parts[0]])
        look = parts[1] if len(parts) > 1 else 'exact'
        w = q['v']
        if look == 'isnull':
            return (v is None) == bool(w)
        if v is None:
            return None
        if look == 'exact':
            if isinstance(w, bool):
                return bool(v) == w
            return v == w
        if look == 'in':
            return v in w
        if look == 'gt':
            return v > w
        if look == 'gte':
            return v >= w
        if look == 'lt':
            return v < w
        if look == 'lte':
            return v <= w
        raise ValueError(look)
    if t == 'not':
        x = q_eval(m, q['c'], row)
        return None if x is None else (not x)
    if t in ('wrap', 'conn1'):
        return q_eval(m, q['c'], row)
    vals = [q_eval(m, c, row) for c in q['c']]
    if t == 'and':
        if any(x is False for x in vals):
            return False
        if any(x is None for x in vals):
            return None
        return True
    if t == 'or':
        if any(x is True for x in vals):
            return True
        if any(x is None for x in vals):
            return None
        return False
    if t == 'xor':
        if any(x is None for x in vals):
            return None
        return sum(1 for x in vals if x) % 2 == 1
    raise ValueError(t)
