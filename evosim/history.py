"""Histories: a project with versions V0..Vn where each step is a generated
evolution stored in the app's SEQUENCE; paths (fresh / direct / stepwise)
over one database; drivers (evolve command, Evolver API, replaced migrate)."""
import copy

from evosim import gen, project as proj, rowmodel, scenarios, spec

SIMPLE_OPS = {'AddField': 5, 'DeleteField': 3, 'ChangeField': 3,
              'NewModel': 1, 'RenameField': 0, 'ChangeMeta': 0,
              'RenameModel': 0, 'DeleteModel': 0, 'SQLMutation': 0}


def simple_config(rng):
    """A configuration whose evolutions stay clear of every recorded
    finding: no Meta indexes/constraints, no column CHECKs, no index /
    unique / db_column attributes, no renames.  Everything is strict."""
    cfg = gen.default_config()
    cfg['kinds'] = ['Char', 'Text', 'Integer', 'BigInteger', 'Boolean',
                    'Decimal', 'DateTime']
    cfg['meta'] = []
    cfg['db_table'] = rng.random() < 0.3
    cfg['db_column'] = False
    cfg['plain_fields'] = True
    cfg['relations'] = rng.random() < 0.4
    cfg['m2m'] = cfg['relations'] and rng.random() < 0.4
    cfg['type_changes'] = False
    cfg['change_attrs'] = ['null', 'max_length', 'decimal']
    cfg['ops'] = dict(SIMPLE_OPS)
    cfg['max_models'] = rng.choice([1, 2, 2])
    cfg['max_rows'] = rng.choice([0, 2, 4])
    cfg['clean_rebuild'] = True
    cfg['simple'] = True
    return cfg


def gen_history(rng, nsteps=None, two_apps=None, simple=None, cfg=None,
                shared_labels=False):
    if simple is None:
        simple = rng.random() < 0.5
    if cfg is None:
        cfg = simple_config(rng) if simple else gen.swarm_config(rng)
        if not simple:
            # keep histories clear of the most disruptive recorded findings
            cfg['ops']['RenameModel'] = 0
            cfg['ops']['DeleteModel'] = 0
            cfg['ops']['NewModel'] = 1
    g = gen.Gen(rng, cfg)
    if two_apps is None:
        two_apps = rng.random() < 0.35
    apps = ['vb', 'va'] if two_apps else ['va']
    if nsteps is None:
        nsteps = rng.choice([1, 2, 2, 3, 3, 4])
    st = g.gen_state(apps)
    rows = g.gen_rows(st)
    project = {'apps': {a: {'v0': copy.deepcopy(st['apps'][a]['models']),
                            'steps': []} for a in apps},
               'order': apps, 'databases': ['default']}
    rows_by_version = [copy.deepcopy(rows)]
    for s in range(nsteps):
        for a in apps:
            evos = []
            if a == 'va' or rng.random() < 0.5:
                n = rng.choice([1, 1, 2, 3, 4])
                muts = None
                if not simple and rng.random() < 0.15:
                    # a step that changes Python names only and lowers to no
                    # SQL at all: RenameField keeping the column
                    mu = g.mut_RenameField(st, a, st['apps'][a]['models'],
                                           rows)
                    if mu and not mu.get('db_table'):
                        mm = spec.find_model(st['apps'][a]['models'],
                                             mu['model'])
                        ff = spec.find_field(mm, mu['old'])
                        if ff['kind'] != 'ManyToMany':
                            mu['db_column'] = spec.column_name(ff)
                            try:
                                new = spec.apply_mutation(st, a, mu)
                                spec.validate_state(new)
                                rows = rowmodel.apply(rows, st, new, a, mu)
                                st = new
                                muts = [mu]
                            except spec.SpecError:
                                muts = None
                if muts is None:
                    muts, st, rows = g.gen_sequence(st, a, n, rows)
                if muts:
                    # shared labels: both apps use the same label at a
                    # step; 'offset': vb uses at step s the label va uses
                    # at step s+1 (same label recorded in different runs)
                    label = spec.evo_label(
                        s + (1 if shared_labels == 'offset' and a == 'vb'
                             else 0), '' if shared_labels else a + '_')
                    evos.append({'label': label, 'mutations': muts})
            project['apps'][a]['steps'].append({'evos': evos})
        rows_by_version.append(copy.deepcopy(rows))
    return {'project': project, 'rows': rows_by_version[0],
            'rows_by_version': rows_by_version, 'simple': bool(simple),
            'cfg_meta': list(cfg.get('meta') or [])}


def mutations_between(project, i, j, app=None):
    out = []
    for a in project['order']:
        if app and a != app:
            continue
        for step in project['apps'][a]['steps'][i:j]:
            for evo in step['evos']:
                out += evo['mutations']
    return out


def labels_upto(project, j):
    out = []
    for a in project['order']:
        for step in project['apps'][a]['steps'][:j]:
            for evo in step['evos']:
                if any(m['op'] != 'NewModel' for m in evo['mutations']) or \
                        True:
                    out.append((a, evo['label']))
    return sorted(out)


def upgrade(ws, driver, **kw):
    """One upgrade run through the chosen driver."""
    if driver == 'command':
        return ws.run('evolve', {'execute': True}, **kw)
    if driver == 'api':
        return ws.run('api', {}, **kw)
    if driver == 'migrate':
        return ws.run('command', {'interactive': False}, command='migrate',
                      **kw)
    raise ValueError(driver)


def features(muts):
    """Structural features (as in C03) of a list of mutations."""
    from evosim.props import c03
    f = c03.features({'muts': [m for m in muts if m['op'] != 'NewModel']})
    gone = set()
    for m in muts:
        if m['op'] == 'DeleteModel':
            gone.add(m['model'])
        elif m['op'] == 'NewModel' and m['model']['name'] in gone:
            f['model_recreated'] = True
    return f
