"""Project = generated apps with versions V0..Vn and evolutions; computes the
project state per version and renders the source tree for a version.

project = {
  'apps': {pkg: {'v0': [model...],
                 'steps': [{'evos': [{'label', 'mutations', 'deps'?}],
                            'target': None | [model...],
                            'app_deps': {...}?}, ...],
                 'labels': None | [label per version]   # RenameAppLabel
                 'migrations': None | {...}}},
  'order': [pkg...]            # INSTALLED_APPS order
  'databases': ['default'] | ['default', 'other'],
  'router': None | {'<app>.<model lower>': alias},
}
The python package name of an app never changes; its *label* may.
"""
import copy

from evosim import spec


def n_versions(project):
    return 1 + max(len(a['steps']) for a in project['apps'].values())


def label_of(project, pkg, version):
    labels = project['apps'][pkg].get('labels')
    if labels:
        return labels[min(version, len(labels) - 1)]
    return pkg


def states(project):
    """[S0..Sn]; S = {'apps': {label: {'models': [...], 'pkg': pkg}}}"""
    st = {'apps': {}}
    for pkg in sorted(project['apps']):
        st['apps'][label_of(project, pkg, 0)] = {
            'models': copy.deepcopy(project['apps'][pkg]['v0']), 'pkg': pkg}
    out = [st]
    n = n_versions(project)
    for i in range(n - 1):
        cur = copy.deepcopy(out[-1])
        for pkg in project['order']:
            app = project['apps'][pkg]
            if i >= len(app['steps']):
                continue
            step = app['steps'][i]
            label = _label_in(cur, pkg)
            if step.get('target') is not None:
                # hinted / perturbed: target stated explicitly
                cur['apps'][label]['models'] = copy.deepcopy(step['target'])
                for evo in step['evos']:
                    for m in evo['mutations']:
                        if m['op'] == 'RenameAppLabel':
                            cur = spec.apply_mutation(cur, label, m)
                            label = _label_in(cur, pkg)
            else:
                for evo in step['evos']:
                    for m in evo['mutations']:
                        cur = spec.apply_mutation(cur, label, m)
                        label = _label_in(cur, pkg)
        out.append(cur)
    return out


def _label_in(state, pkg):
    for label, a in state['apps'].items():
        if a.get('pkg') == pkg:
            return label
    raise KeyError(pkg)


def sequence_at(project, pkg, version):
    out = []
    for step in project['apps'][pkg]['steps'][:version]:
        for evo in step['evos']:
            if not evo.get('unlisted'):
                out.append(evo['label'])
    return out


def render_router(router, migrate_only=False):
    """migrate_only: the router has an opinion about allow_migrate() only;
    reads and writes fall back to the default database."""
    lines = ['MAP = %r' % (router,), '', '',
             'class R(object):',
             '    def _db(self, app_label, model_name):',
             "        return MAP.get('%s.%s' % (app_label, model_name))",
             '',
             '    def _rw(self, app_label, model_name):',
             '        if %r:' % bool(migrate_only),
             '            return None',
             '        return self._db(app_label, model_name)',
             '',
             '    def db_for_read(self, model, **hints):',
             '        return self._rw(model._meta.app_label,',
             '                        model._meta.model_name)',
             '',
             '    def db_for_write(self, model, **hints):',
             '        return self._rw(model._meta.app_label,',
             '                        model._meta.model_name)',
             '',
             '    def allow_relation(self, a, b, **hints):',
             '        return True',
             '',
             '    def allow_migrate(self, db, app_label, model_name=None,',
             '                      **hints):',
             '        want = self._db(app_label, model_name)',
             '        if want is None:',
             '            return None',
             '        return want == db',
             '']
    return '\n'.join(lines)


def render_version(project, version, sts=None, apps=None):
    """files {relpath: text} for the whole project at a version, and the
    INSTALLED_APPS entries."""
    sts = sts or states(project)
    st = sts[version]
    files = {}
    installed = []
    for pkg in project['order']:
        if apps is not None and pkg not in apps:
            continue
        app = project['apps'][pkg]
        label = label_of(project, pkg, version)
        if label not in st['apps']:
            label = _label_in(st, pkg)
        models = st['apps'][label]['models']
        files['%s/__init__.py' % pkg] = ''
        explicit = label if label != pkg else None
        files['%s/models.py' % pkg] = spec.render_models_py(models, None)
        if explicit:
            files['%s/apps.py' % pkg] = (
                'from django.apps import AppConfig\n\n\n'
                'class C(AppConfig):\n    name = %r\n    label = %r\n'
                % (pkg, label))
            installed.append('%s.apps.C' % pkg)
        else:
            installed.append(pkg)
        mig = app.get('migrations')
        if mig:
            have = [(name, f) for name, f in sorted(mig['files'].items())
                    if f.get('from', 0) <= version]
            if have:
                files['%s/migrations/__init__.py' % pkg] = ''
                for name, f in have:
                    files['%s/migrations/%s.py' % (pkg, name)] = f['text']
        if app.get('no_evolutions_pkg'):
            continue
        deps = {}
        for step in app['steps'][:version]:
            for k, v in (step.get('app_deps') or {}).items():
                deps.setdefault(k, [])
                deps[k] += v
        files['%s/evolutions/__init__.py' % pkg] = \
            spec.render_evolutions_init(sequence_at(project, pkg, version),
                                        deps)
        for step in app['steps'][:version]:
            for evo in step['evos']:
                if evo.get('hinted_file'):
                    continue     # written in-simulation by evolve --hint -w
                files['%s/evolutions/%s.py' % (pkg, evo['label'])] = \
                    spec.render_evolution_file(evo)
                # database-specific raw SQL evolutions:
                # evolutions/<alias>_<label>.sql takes precedence over the
                # python module when that database is evolved
                for alias, text in sorted((evo.get('sql_files')
                                           or {}).items()):
                    files['%s/evolutions/%s_%s.sql' % (
                        pkg, alias, evo['label'])] = text
    if project.get('router'):
        files['router.py'] = render_router(
            project['router'], project.get('router_migrate_only'))
    return files, installed


def deploy(ws, project, version, sts=None, apps=None, clean=False):
    files, installed = render_version(project, version, sts, apps)
    ws.write_files(files, clean=clean)
    ws.installed_apps = installed
    ws.router = bool(project.get('router'))
    return installed
