"""C01 - evolved database schema equals the schema of freshly created models.

Workload: install V0 fresh (one real process), load rows, deploy V1 with a
generated evolution (hand-written or produced in-simulation by
`evolve --hint --write`), run `evolve --execute` (another process), observe
with sqlite3 only, compare with Django's own schema editor output for V1.
"""
import copy

from evosim import project as proj, runner, scenarios, snapshot, spec
from evosim.engine import violation
from evosim.props import common

ID = 'C01'
LEVEL = 'exploration'
LEVEL_TEXT = ("seeded search over generated (models, evolution) programs executed through the real evolve command in fresh processes, compared table by table with Django's own schema editor output; a clean batch is evidence, not proof")
TECHNIQUE = ('deterministic simulation: seeded program generation + real-process execution + sqlite3 observation vs fresh-schema reference model')
PLAN = {
    'quick': {'count': 1200, 'max_wall': 170, 'shrink_budget': 30,
              'shrink_wall': 120},
    'thorough': {'count': 6000, 'max_wall': 1500, 'shrink_budget': 80,
                 'shrink_wall': 400},
}
RULE_TEXT = (
    'scenario = seeded swarm configuration -> random model set (1-3 models, '
    '1-2 apps) + rows -> 1-4 generator-valid mutations split over 1-3 '
    'evolution labels (30% of scenarios: evolution produced by evolve --hint '
    '--write instead); executed through the evolve command in fresh '
    'processes. Non-trivial = the evolve run executed at least one write '
    'statement inside an applying_evolution bracket or created a model. '
    'Distinct = distinct shape digest (sorted mutation kinds+changed attrs, '
    'field kinds, Meta features, path hand-written/hinted).')
RULE_TEXT += ' Dedicated families (4% each): relations added between same-named models of two apps; column type changes that do not restate null / unique / db_index.'
ASSUMPTIONS = [
    'SQLite 3.40 / Django 4.2 behave as documented',
    'fresh-schema oracle = django schema_editor.create_model on an empty db',
    'comparison ignores column order, AUTOINCREMENT, derived index names, '
    'DEFAULT and DEFERRABLE clauses (not listed by the property)',
    'generator semantics of mutations (evosim/spec.py) define validity',
]


def generate(seed, index, tier):
    rng = scenarios.derive_rng(seed, ID, index)
    if index % 25 == 24:
        return _gen_homonym(rng)
    if index % 25 == 23:
        return _gen_type_reset(rng)
    mode = 'hinted' if rng.random() < 0.3 else 'written'
    ops = None
    if mode == 'hinted':
        # hints cannot express model renames (C05: 'supported ways')
        import copy as _copy
        from evosim import gen as _gen
        cfg = _gen.swarm_config(rng)
        cfg['ops']['RenameModel'] = 0
        scn = scenarios.single_step(rng, cfg=cfg,
                                    new_models=rng.random() < 0.2)
    else:
        scn = scenarios.single_step(rng, new_models=rng.random() < 0.2)
    scn['mode'] = mode
    scn['hashseed'] = rng.choice([0, 0, 1, 2])
    return scn


def _gen_homonym(rng):
    """Relations added between models that share their class name across
    two apps (or to the model itself): Django names the M2M through columns
    from_<model>_id / to_<model>_id whenever the two lower-cased model names
    are equal, whatever the app."""
    intf = lambda n: {'name': n, 'kind': 'Integer', 'attrs': {'null': True}}
    name = rng.choice(['Item', 'Node'])
    other = 'Part'
    vb = [{'name': name, 'fields': [intf('a')], 'meta': {}},
          {'name': other, 'fields': [intf('a')], 'meta': {}}]
    va = [{'name': name, 'fields': [intf('a')], 'meta': {}}]
    muts = []
    n = rng.choice([1, 1, 2])
    targets = ['vb.' + name, 'vb.' + name, 'va.' + name, 'vb.' + other]
    for i in range(n):
        kind = rng.choice(['ManyToMany', 'ManyToMany', 'ForeignKey'])
        f = {'name': 'r%d' % (i + 1), 'kind': kind, 'attrs': {},
             'to': rng.choice(targets)}
        if kind == 'ForeignKey':
            f['attrs']['null'] = True
        muts.append({'op': 'AddField', 'model': name, 'field': f})
    project = {'apps': {'vb': {'v0': vb, 'steps': []},
                        'va': {'v0': va, 'steps': [{'evos': [
                            {'label': spec.evo_label(0),
                             'mutations': muts}]}]}},
               'order': ['vb', 'va'], 'databases': ['default']}
    mode = 'hinted' if rng.random() < 0.3 else 'written'
    return {'project': project, 'rows': {}, 'cfg': {}, 'mode': mode,
            'hashseed': rng.choice([0, 1]), 'homonym': True}


def _gen_type_reset(rng):
    """A column type change is a hard reset of the field's attributes:
    what the mutation does not restate (null, unique, db_index) returns to
    its default in the database as well."""
    old_kind, new_kind = rng.choice([('Integer', 'BigInteger'),
                                     ('BigInteger', 'Integer'),
                                     ('Char', 'Text'), ('Integer', 'Char')])
    attrs = {}
    while not attrs:
        for k in ('null', 'unique', 'db_index'):
            if rng.random() < 0.5:
                attrs[k] = True
    if old_kind == 'Char':
        attrs['max_length'] = 20
    restate = {k: v for k, v in attrs.items()
               if k in ('null', 'unique', 'db_index') and rng.random() < 0.4}
    if new_kind == 'Text':
        restate.pop('unique', None)
        restate.pop('db_index', None)
    if new_kind == 'Char':
        restate['max_length'] = 30
    model = {'name': 'Item', 'fields': [
        {'name': 'a', 'kind': old_kind, 'attrs': attrs},
        {'name': 'b', 'kind': 'Integer', 'attrs': {'null': True}}],
        'meta': {}}
    mut = {'op': 'ChangeField', 'model': 'Item', 'name': 'a',
           'kind': new_kind, 'attrs': restate}
    vals = ['x1', 'x2', 'x3'] if old_kind == 'Char' else [11, 12, 13]
    rows = {'va_item': [{'id': i + 1, 'a': v, 'b': None}
                        for i, v in enumerate(vals[:rng.choice([0, 2, 3])])]}
    project = {'apps': {'va': {'v0': [model], 'steps': [{'evos': [
        {'label': spec.evo_label(0), 'mutations': [mut]}]}]}},
        'order': ['va'], 'databases': ['default']}
    # a hint for a column that becomes NOT NULL needs a user value
    hintable = not (attrs.get('null') and 'null' not in restate)
    mode = 'hinted' if hintable and rng.random() < 0.4 else 'written'
    return {'project': project, 'rows': rows, 'cfg': {}, 'mode': mode,
            'hashseed': rng.choice([0, 1]), 'type_reset': True}


def touched_models(project, state0, state1):
    """(app, table) of models the evolution names or relates to."""
    named = set()
    for evo in project['apps']['va']['steps'][0]['evos']:
        for m in evo['mutations']:
            for k in ('model', 'old', 'new'):
                if isinstance(m.get(k), str) and m['op'] != 'RenameField':
                    named.add(m[k])
            if m['op'] == 'RenameField':
                named.add(m['model'])
            if m['op'] == 'NewModel':
                named.add(m['model']['name'])
    tables = set()
    for st in (state0, state1):
        if 'va' not in st['apps']:
            continue
        refs = set()
        for m in st['apps']['va']['models']:
            if m['name'] in named:
                tables.add(spec.table_name('va', m))
                refs.add('va.' + m['name'])
                for f in m['fields']:
                    if f['kind'] == 'ManyToMany':
                        tables.add(spec.m2m_table('va', m, f))
                    if f.get('to'):
                        ta, tm = f['to'].split('.')
                        tm_ = spec.find_model(st['apps'][ta]['models'], tm)
                        if tm_:
                            tables.add(spec.table_name(ta, tm_))
        for a in st['apps']:
            for m in st['apps'][a]['models']:
                for f in m['fields']:
                    if f.get('to') in refs:
                        tables.add(spec.table_name(a, m))
                        if f['kind'] == 'ManyToMany':
                            tables.add(spec.m2m_table(a, m, f))
    return tables


def run_upgrade(ws, scn, sts, hashseed=0, **kw):
    """Deploy V1 and upgrade; returns (run, hint_run|None)."""
    P = scn['project']
    hint = None
    if scn.get('mode') == 'hinted':
        P2 = copy.deepcopy(P)
        step = P2['apps']['va']['steps'][0]
        step['target'] = sts[1]['apps']['va']['models']
        step['evos'] = [{'label': 'h1', 'mutations': [],
                         'hinted_file': True, 'unlisted': True}]
        proj.deploy(ws, P2, 1, [sts[0], sts[1]])
        hint = ws.run('evolve', {'hint': True, 'write_evolution_name': 'h1'},
                      hashseed=hashseed)
        if ws.exists('va/evolutions/h1.py') and 'USER VALUE REQUIRED' in \
                ws.read_file('va/evolutions/h1.py'):
            # a hint that needs user input is not an evolution to execute
            # (C13 checks that it refuses to run)
            hint.placeholder = True
            return hint, hint
        if ws.exists('va/evolutions/h1.py'):
            ws.write_files({'va/evolutions/__init__.py':
                            spec.render_evolutions_init(['h1'])})
    else:
        proj.deploy(ws, P, 1, sts)
    if scn.get('driver') == 'api_nested':
        r = ws.run('api', {'nested_atomic': True}, hashseed=hashseed, **kw)
        if r.status == 'ok' and (r.exit or {}).get('evolved'):
            pass
        return r, hint
    r = ws.run('evolve', {'execute': True}, hashseed=hashseed, **kw)
    return r, hint


def execute(scn):
    P = scn['project']
    sts = proj.states(P)
    stats = {}
    viols = []
    res = {'violations': viols, 'stats': stats, 'nontrivial': False,
           'shape': scenarios.shape_digest(scn) + scn.get('mode', ''),
           'runs': 0}
    tags = common.op_tags(P)
    with runner.Workspace() as ws:
        r0 = common.install(ws, P, sts, 0, scn['rows'])
        if getattr(r0, 'rows_rejected', None):
            stats['rows_rejected'] = 1
            res['runs'] = ws.nruns
            return res
        if r0.status != 'ok':
            stats['install_failed'] = 1
            res['runs'] = ws.nruns
            return res
        pre = snapshot.snapshot(ws)
        r, hint = run_upgrade(ws, scn, sts, scn.get('hashseed', 0))
        res['runs'] = ws.nruns
        stats['mode_' + scn.get('mode', 'written')] = 1
        if hint is not None and not ws.exists('va/evolutions/h1.py'):
            stats['hint_wrote_nothing'] = 1
        elif hint is not None:
            # judge a hinted run by the mutations the hint really contains
            tags = common.hint_tags(ws.read_file('va/evolutions/h1.py'))
        if getattr(r, 'placeholder', False):
            stats['hint_placeholder'] = 1
            return res
        if common.rejected_before_sql(r):
            stats['rejected_before_sql'] = 1
            return res
        rebuilt = common.rebuilt_tables(r)
        if rebuilt:
            stats['rebuild_happened'] = 1
        if r.status != 'ok' and 'UNIQUE constraint failed' in (
                (r.exit or {}).get('msg') or ''):
            # the generated rows collide under a uniqueness the evolution
            # introduces: a data conflict of the scenario, not a verdict
            stats['data_conflict'] = 1
            return res
        if r.status != 'ok':
            any_shadowed = False
            for st_ in (sts[0], sts[1]):
                for a_ in st_['apps']:
                    for m_ in st_['apps'][a_]['models']:
                        for (cs, u, o) in common.expected_index_origins(
                                a_, m_):
                            if common.index_shadowed(a_, m_, list(cs)):
                                any_shadowed = True
            viols.append(violation(
                'C01.run_failed', status=r.status,
                any_shadowed=any_shadowed,
                exc=(r.exit or {}).get('exc'),
                msg=(r.exit or {}).get('msg', '')[:300], ops=tags,
                ops_str=' '.join(tags), n_ops=len(tags),
                mode=scn.get('mode'), rebuilt=rebuilt))
            res['nontrivial'] = True
            return res
        if not r.writes():
            stats['noop'] = 1
            return res
        res['nontrivial'] = True
        stats['accepted_and_executed'] = 1
        post = snapshot.snapshot(ws)
        fresh, _ = common.fresh_snapshot(P, sts, 1)
        res['runs'] += 1
        apps = sorted(sts[1]['apps'])
        for d in common.schema_diffs(post, fresh, sts[1], apps,
                                      state_before=sts[0]):
            rule = {'table_missing': 'C01.table_set',
                    'column_missing': 'C01.columns',
                    'column_extra': 'C01.columns',
                    'column_differs': 'C01.columns',
                    'index_missing': 'C01.index_missing',
                    'index_extra': 'C01.index_extra',
                    'fk_missing': 'C01.fk_target',
                    'fk_extra': 'C01.fk_target',
                    'check_missing': 'C01.check',
                    'check_extra': 'C01.check',
                    'named_object_missing': 'C01.named_object_missing',
                    }[d['kind']]
            viols.append(violation(
                rule, table=d['table'], kind=d['kind'], what=d['what'],
                origin=d.get('origin'), shadowed=d.get('shadowed', False),
                on_check_column=d.get('on_check_column', False),
                field_kinds=d.get('field_kinds'),
                rebuilt=d['table'] in rebuilt, n_ops=len(tags),
                ops=tags, ops_str=' '.join(tags), mode=scn.get('mode')))
        # tables that should be gone
        want = set(common.app_tables(sts[1], apps))
        had = set(common.app_tables(sts[0], sorted(sts[0]['apps'])))
        for t in sorted((had - want) & set(post['tables'])):
            viols.append(violation('C01.table_set', table=t,
                                   kind='table_left', ops=tags,
                                   ops_str=' '.join(tags)))
        if 'TEMP_TABLE' in post['tables']:
            viols.append(violation('C01.temp_left', ops=tags))
        touched = touched_models(P, sts[0], sts[1])
        by = [t for t in pre['tables'] if t not in touched
              and t in want and not t.startswith(('django_', 'sqlite_'))]
        for d in common.bystander_diffs(pre, post, by):
            viols.append(violation('C01.bystander_changed', ops=tags, **d))
        if by:
            stats['bystander_checked'] = 1
        res['sample'] = {'mode': scn.get('mode'), 'ops': tags,
                         'models': [m['name'] for m in
                                    sts[0]['apps']['va']['models']],
                         'rebuilt': rebuilt,
                         'writes': len(r.writes())}
    return res


def shrinks(scn):
    return scenarios.shrink_single_step(scn)
