"""C02 - evolutions preserve existing row data.

Same lifecycle as C01 with rows loaded before the upgrade; afterwards every
table's rows (read with sqlite3) must equal the row model advanced by the
spec-level meaning of each mutation.  A second configuration injects one
database error at a sampled statement, retries, and demands the same rows
as the uninterrupted model (no double fill, no loss).
"""
from evosim import project as proj, runner, scenarios, snapshot, rowmodel, \
    spec
from evosim.engine import violation
from evosim.props import common, c01

ID = 'C02'
LEVEL = 'exploration'
LEVEL_TEXT = ('seeded search over generated (models, rows, evolution) '
              'programs run through the real evolve command; rows read back '
              'with sqlite3 and compared with an independent row model; '
              'sampling, not proof')
TECHNIQUE = ('deterministic simulation: seeded programs + rows, real-process '
             'execution, reference row model; fault configuration = one '
             'injected statement failure then retry')
PLAN = {
    'quick': {'count': 900, 'max_wall': 170, 'shrink_budget': 30,
              'shrink_wall': 120},
    'thorough': {'count': 8000, 'max_wall': 1500, 'shrink_budget': 80,
                 'shrink_wall': 400},
}
RULE_TEXT = (
    'scenario = C01 generator with 1-6 rows per table (NULLs, empty strings, '
    'quotes, percent signs, negative and boundary numbers, FK and M2M links, '
    'unicode); hand-written evolutions (renames carry data). 25% of '
    'scenarios run the fault configuration (sql_error at a seeded statement '
    'index, then a fault-free retry). Non-trivial = at least one table with '
    'rows was rewritten/renamed or got a column added/changed; distinct = '
    'shape digest.')
RULE_TEXT += ' 1 in 25: "column_rename" family (a surviving relation / plain column renamed through ChangeField(db_column=), also back to its default name).'
ASSUMPTIONS = [
    'row model semantics in evosim/rowmodel.py (rename carries values, add '
    'fills initial or NULL, delete drops, null->not-null replaces exactly '
    'the NULLs)',
    'affinity-tolerant comparison only on columns whose declared type '
    'changed',
]


def _merged_initials(scn):
    """True when one field receives two mutations that both decide row
    values (initial / null changes): the optimiser merges them, which is
    C03's subject, not C02's."""
    seen = {}
    for evo in scn['project']['apps']['va']['steps'][0]['evos']:
        for m in evo['mutations']:
            if m['op'] == 'DeleteField':
                # delete + re-add of one name: the optimiser / pending-
                # mutation filter may cancel both (C03's subject)
                seen[(m['model'], m['name'])] = 1
                continue
            if m['op'] == 'AddField':
                key = (m['model'], m['field']['name'])
            elif m['op'] == 'ChangeField' and (
                    'initial' in m or 'null' in (m.get('attrs') or {})):
                key = (m['model'], m['name'])
            elif m['op'] == 'RenameField':
                if (m['model'], m['old']) in seen:
                    seen[(m['model'], m['new'])] = seen[(m['model'],
                                                         m['old'])]
                continue
            else:
                continue
            seen[key] = seen.get(key, 0) + 1
            if seen[key] > 1:
                return True
    return False


def _gen_column_rename(rng):
    """A surviving column changes its name through ChangeField(db_column=):
    to another explicit name, or back to the field's default column (None) -
    which for a relation is <name>_id.  Every value has to be found under
    the new column name afterwards."""
    intf = lambda n: {'name': n, 'kind': 'Integer', 'attrs': {'null': True}}
    part = {'name': 'Part', 'fields': [intf('p')], 'meta': {}}
    rel = rng.random() < 0.6
    if rel:
        f = {'name': 'owner', 'kind': rng.choice(['ForeignKey', 'OneToOne']),
             'attrs': {'null': True}, 'to': 'va.Part'}
    else:
        f = intf('c')
    start_explicit = rng.random() < 0.7
    if start_explicit:
        f['attrs']['db_column'] = 'owner_ref' if rel else 'c_col'
        new = None if rng.random() < 0.6 else 'col_new'
    else:
        new = 'col_new'
    item = {'name': 'Item', 'fields': [intf('a'), f], 'meta': {}}
    col = spec.column_name(f)
    rows = {'va_part': [{'id': 1, 'p': 1}, {'id': 2, 'p': 2}],
            'va_item': [{'id': 1, 'a': 5, col: 2}, {'id': 2, 'a': 6,
                                                     col: None},
                        {'id': 3, 'a': None, col: 1}]}
    muts = [{'op': 'ChangeField', 'model': 'Item', 'name': f['name'],
             'attrs': {'db_column': new}}]
    if rng.random() < 0.4:
        muts.append({'op': 'AddField', 'model': 'Item', 'field': intf('b')})
    project = {'apps': {'va': {'v0': [part, item], 'steps': [{'evos': [
        {'label': spec.evo_label(0), 'mutations': muts}]}]}},
        'order': ['va'], 'databases': ['default']}
    return {'project': project, 'rows': rows, 'cfg': {}, 'mode': 'written',
            'fault': rng.random() < 0.25, 'fault_pos': rng.random(),
            'family': 'column_rename'}


def generate(seed, index, tier):
    from evosim import gen
    if index % 25 == 24:
        return _gen_column_rename(scenarios.derive_rng(seed, ID, index))
    for attempt in range(20):
        rng = scenarios.derive_rng(seed, ID, index, attempt)
        cfg = gen.swarm_config(rng)
        cfg['max_rows'] = rng.choice([2, 4, 6])
        scn = scenarios.single_step(rng, cfg=cfg)
        scn['mode'] = 'written'
        scn['fault'] = rng.random() < 0.25
        scn['fault_pos'] = rng.random()
        if not _merged_initials(scn):
            return scn
    return scn


def execute(scn):
    P = scn['project']
    sts = proj.states(P)
    stats, viols = {}, []
    tags = common.op_tags(P)
    res = {'violations': viols, 'stats': stats, 'nontrivial': False,
           'shape': scenarios.shape_digest(scn) + str(scn.get('fault')),
           'runs': 0}
    expected, type_changed = scenarios.row_model_after(scn)
    with runner.Workspace() as ws:
        r0 = common.install(ws, P, sts, 0, scn['rows'])
        res['runs'] = ws.nruns
        if getattr(r0, 'rows_rejected', None):
            stats['rows_rejected'] = 1
            return res
        if r0.status != 'ok':
            stats['install_failed'] = 1
            return res
        nrows = sum(len(v) for v in scn['rows'].values())
        if scn.get('fault'):
            ws.fork_db('pre')
            u, _ = c01.run_upgrade(ws, scn, sts)
            n = u.eligible_count()
            if u.status != 'ok' or n == 0:
                stats['fault_config_skipped'] = 1
                res['runs'] = ws.nruns
                return res
            k = int(scn['fault_pos'] * n) % n
            ws.use_db('pre')
            f, _ = c01.run_upgrade(ws, scn, sts, fault={
                'kind': 'sql_error', 'k': k, 'scope': 'evo'})
            if f.injected() is not None:
                stats['fired_sql_error'] = 1
            r, _ = c01.run_upgrade(ws, scn, sts)
            cfgname = 'faulted'
        else:
            r, _ = c01.run_upgrade(ws, scn, sts)
            cfgname = 'fault_free'
        res['runs'] = ws.nruns
        stats['config_' + cfgname] = 1
        if common.rejected_before_sql(r):
            stats['rejected_before_sql'] = 1
            return res
        if r.status != 'ok':
            stats['run_failed'] = 1      # C01's (or C07's) business
            return res
        rebuilt = common.rebuilt_tables(r)
        post = snapshot.snapshot(ws)
        touched = [t for t in rebuilt if scn['rows'].get(t)]
        res['nontrivial'] = bool(nrows and r.writes())
        if touched:
            stats['rebuilt_table_with_rows'] = 1
        for d in rowmodel.compare(expected, post, type_changed):
            kind = d[0]
            rule = {'table_missing': 'C02.table_rows_lost',
                    'row_set': 'C02.row_count',
                    'column_missing': 'C02.column_missing',
                    'value': 'C02.value_changed'}[kind]
            detail = dict(ops=tags, ops_str=' '.join(tags), config=cfgname,
                          table=d[1])
            if kind == 'row_set':
                detail.update(expected=d[2], actual=d[3])
            if kind == 'column_missing':
                detail.update(column=d[2])
            if kind == 'value':
                detail.update(pk=d[2], column=d[3], expected=d[4],
                              actual=d[5], rebuilt=d[1] in rebuilt)
            viols.append(violation(rule, **detail))
        res['sample'] = {'ops': tags, 'rows': nrows, 'config': cfgname,
                         'rebuilt': rebuilt}
    return res


def shrinks(scn):
    import copy
    for c in scenarios.shrink_single_step(scn):
        yield c
    # drop single rows (children first is not needed: FK checks are off
    # while loading; dangling rows would only be reported by fk_check)
    for t in sorted(scn['rows']):
        for i in range(len(scn['rows'][t])):
            c = copy.deepcopy(scn)
            del c['rows'][t][i]
            yield c
