"""C03 - optimising a mutation sequence never changes its outcome.

Twin continuations from one forked database state:
 (a) the whole sequence in one upgrade through the real Evolver pipeline
     (prepare + batch building: the optimiser runs twice over the same
     mutation objects), with in-child probes (mutation str() before/after,
     second preparation pass in the same process);
 (c) the whole sequence through a bare AppMutator over the stored signature
     and the database state scanned from the real database;
 (b) one evolution per mutation, one upgrade run (fresh process) each.
Final stored signature, schema and rows of (a)/(c) must equal those of (b).
"""
import copy
import json
import re

from evosim import gen, project as proj, runner, scenarios, snapshot, spec
from evosim.engine import violation
from evosim.props import common

ID = 'C03'
LEVEL = 'exploration'
LEVEL_TEXT = ('seeded search over generated mutation sequences biased to the '
              "optimiser's case analysis; differential oracle (optimised run "
              'vs one mutation per run) on the real code; the exhaustive '
              'small-scope part of the quantifier is sampled densely, not '
              'enumerated')
TECHNIQUE = ('deterministic simulation: twin continuations from a forked '
             'database (optimised single run / bare AppMutator / one process '
             'per mutation), sqlite3 snapshots and stored-signature '
             'comparison, in-child probes')
PLAN = {
    'quick': {'count': 320, 'max_wall': 170, 'shrink_budget': 25,
              'shrink_wall': 150},
    'thorough': {'count': 4000, 'max_wall': 1700, 'shrink_budget': 60,
                 'shrink_wall': 400},
}
RULE_TEXT = (
    'scenario = 1-2 models over a 3-4 name field alphabet (25%: 2 models x 3 '
    'names x length <= 4), 2-8 generator-valid mutations (add/rename/change/'
    'delete of one name, name reuse, ChangeMeta repeats, SQLMutation '
    'barriers, RenameModel, mutations interleaved over models) with rows; '
    'non-trivial = the one-at-a-time continuation completed and the '
    'optimised run executed or refused; distinct = ordered mutation-kind '
    'sequence + field kinds digest.')
RULE_TEXT += ' 1 in 20 each: strict families "index_after_barrier" and "changemeta_twice" in which no known finding applies.'
ASSUMPTIONS = [
    'both sides are the code under test: a defect common to both (e.g. the '
    'rebuild losing Meta indexes) cancels here by design (C01 reports it)',
    'schema equality at the level of C01 (column set, index multiset, fks, '
    'checks), row equality exact, signature equality as JSON values',
]

OPS = {'AddField': 5, 'DeleteField': 4, 'RenameField': 4, 'ChangeField': 5,
       'ChangeMeta': 2, 'RenameModel': 1, 'DeleteModel': 0, 'NewModel': 0,
       'SQLMutation': 1}


def gen_scenario(rng, dense=None, ops=None, one_model=False):
    cfg = gen.swarm_config(rng)
    chain = ops is None and dense is None and rng.random() < 0.2
    if dense is None:
        dense = rng.random() < 0.25
    cfg['field_names'] = ['a', 'b', 'c'] if dense else ['a', 'b', 'c', 'd']
    cfg['max_models'] = 1 if one_model else (2 if dense else rng.choice(
        [1, 2, 2]))
    cfg['max_fields'] = 2
    cfg['relations'] = (not dense) and rng.random() < 0.3
    cfg['m2m'] = False
    cfg['ops'] = dict(ops or OPS)
    if rng.random() < 0.5:
        cfg['ops']['SQLMutation'] = 0
    if rng.random() < 0.6:
        cfg['ops']['RenameModel'] = 0
    cfg['max_rows'] = rng.choice([0, 2, 3])
    if chain:
        # same-field chains: consecutive add / change (null, initial,
        # max_length) mutations of very few names, so that the optimiser
        # collapses several mutations into one
        cfg['field_names'] = ['a', 'b']
        cfg['max_models'] = 1
        cfg['max_fields'] = 1
        cfg['relations'] = False
        cfg['plain_fields'] = True
        cfg['type_changes'] = False
        cfg['change_attrs'] = ['null', 'max_length', 'decimal']
        cfg['kinds'] = ['Char', 'Integer', 'Boolean', 'Text']
        cfg['ops'] = {'AddField': 3, 'ChangeField': 8, 'DeleteField': 0,
                      'RenameField': 0, 'ChangeMeta': 0, 'RenameModel': 0,
                      'DeleteModel': 0, 'NewModel': 0, 'SQLMutation': 0}
        cfg['meta'] = []
        cfg['max_rows'] = rng.choice([2, 3])
    if not cfg.get('clean_rebuild') and rng.random() < 0.75:
        # rebuilds happen a different number of times on the two sides, so
        # what a rebuild loses (recorded C01 finding) would show up as a
        # difference: most scenarios avoid those features
        cfg['meta'] = []
        cfg['kinds'] = [k2 for k2 in cfg['kinds']
                        if k2 != 'PositiveInteger'] or ['Integer']
        cfg['clean_rebuild'] = True
    g = gen.Gen(rng, cfg)
    st0 = g.gen_state(['va'])
    rows = g.gen_rows(st0)
    n = rng.randint(2, 4) if dense else rng.randint(2, 8)
    muts, st1, rows1 = g.gen_sequence(st0, 'va', n, rows)
    k = rng.choice([1, 1, 2, 3])
    cuts = sorted(rng.sample(range(1, len(muts)), min(k - 1, len(muts) - 1))
                  ) if len(muts) > 1 else []
    return {'v0': st0['apps']['va']['models'], 'rows': rows, 'muts': muts,
            'cuts': cuts, 'hashseed': rng.choice([0, 0, 1]),
            'clean': bool(cfg.get('clean_rebuild'))}


def gen_index_after_barrier(rng):
    """An indexed field whose column differs from its name is added, a
    non-model mutation separates it from a later mutation that looks the
    index up again (drop it, or build a Meta index over the column): the
    run's own index bookkeeping has to carry the index across the barrier."""
    intf = lambda n: {'name': n, 'kind': 'Integer', 'attrs': {'null': True}}
    part = {'name': 'Part', 'fields': [intf('b')], 'meta': {}}
    item = {'name': 'Item', 'fields': [intf('a')], 'meta': {}}
    if rng.random() < 0.6:
        new = {'name': 'owner', 'kind': 'ForeignKey',
               'attrs': {'null': True}, 'to': 'va.Part'}
    else:
        new = {'name': 'c', 'kind': 'Integer',
               'attrs': {'null': True, 'db_index': True,
                         'db_column': 'col_c'}}
    muts = [{'op': 'AddField', 'model': 'Item', 'field': new},
            {'op': 'SQLMutation', 'tag': 'sql_1', 'sql': [
                'UPDATE "django_content_type" SET "model" = "model" '
                'WHERE 1 = 0 -- sql_1']}]
    if rng.random() < 0.6:
        muts.append({'op': 'ChangeField', 'model': 'Item',
                     'name': new['name'], 'attrs': {'db_index': False}})
    else:
        muts.append({'op': 'ChangeMeta', 'model': 'Item',
                     'prop': 'index_together',
                     'value': [[new['name'], 'a']]})
    n = len(muts)
    k = rng.choice([1, 1, 2, 3])
    cuts = sorted(rng.sample(range(1, n), min(k - 1, n - 1)))
    return {'v0': [part, item], 'rows': {'va_part': [{'id': 1, 'b': 1}],
                                         'va_item': [{'id': 1, 'a': 1}]},
            'muts': muts, 'cuts': cuts, 'hashseed': rng.choice([0, 1]),
            'clean': True, 'family': 'strict_index_after_barrier'}


def gen_changemeta_twice(rng):
    """Two or three ChangeMeta of one Meta property of one model in one
    batch: the optimiser keeps only one of them - it has to be the last."""
    intf = lambda n: {'name': n, 'kind': 'Integer', 'attrs': {'null': True}}
    item = {'name': 'Item', 'fields': [intf('a'), intf('b'), intf('c')],
            'meta': {}}
    prop = rng.choice(['indexes', 'indexes', 'index_together'])
    if prop == 'indexes':
        pool = [{'fields': ['a'], 'name': 'ix_a'},
                {'fields': ['b'], 'name': 'ix_b'},
                {'fields': ['c', 'a'], 'name': 'ix_ca'}]
    else:
        pool = [['a', 'b'], ['b', 'c'], ['c', 'a']]
    values = []
    for _ in range(rng.choice([2, 2, 3])):
        v = rng.sample(pool, rng.choice([1, 2]))
        if not values or v != values[-1]:
            values.append(v)
    if len(values) < 2:
        values.append([pool[2]])
    muts = [{'op': 'ChangeMeta', 'model': 'Item', 'prop': prop, 'value': v}
            for v in values]
    # (no column mutation in between: a rebuild between two Meta changes
    # runs into the recorded rebuild / index bookkeeping findings)
    n = len(muts)
    k = rng.choice([1, 2, 3])
    cuts = sorted(rng.sample(range(1, n), min(k - 1, n - 1)))
    return {'v0': [item], 'rows': {'va_item': [{'id': 1, 'a': 1, 'b': 2,
                                                'c': 3}]},
            'muts': muts, 'cuts': cuts, 'hashseed': rng.choice([0, 1]),
            'clean': True, 'family': 'strict_changemeta_twice'}


def generate(seed, index, tier):
    rng = scenarios.derive_rng(seed, ID, index)
    if index % 20 == 19:
        return gen_index_after_barrier(rng)
    if index % 20 == 9:
        return gen_changemeta_twice(rng)
    return gen_scenario(rng)


def project_batched(scn):
    muts = scn['muts']
    evos, prev = [], 0
    for i, c in enumerate(list(scn.get('cuts') or []) + [len(muts)]):
        if c > prev:
            evos.append({'label': spec.evo_label(i),
                         'mutations': muts[prev:c]})
        prev = c
    return {'apps': {'va': {'v0': scn['v0'], 'steps': [{'evos': evos}]}},
            'order': ['va'], 'databases': ['default']}


def project_stepwise(scn):
    steps = [{'evos': [{'label': 's%d' % (i + 1), 'mutations': [m]}]}
             for i, m in enumerate(scn['muts'])]
    return {'apps': {'va': {'v0': scn['v0'], 'steps': steps}},
            'order': ['va'], 'databases': ['default']}


def rebuild_counts(run):
    """{table: number of rebuilds} from the statement trace of a run."""
    out = {}
    for t in common.rebuilt_tables(run):
        out[t] = out.get(t, 0) + 1
    return out


FIELD_DEFAULTS = {'null': False, 'unique': False, 'primary_key': False,
                  'db_column': None, 'max_length': None, 'db_table': None,
                  'max_digits': None, 'decimal_places': None}


def normalise_apps(apps):
    """Drop field attributes stated explicitly with their default value
    and ignore field order: 'same signature' is meant logically."""
    apps = copy.deepcopy(apps)
    for a in (apps or {}).values():
        for m in (a.get('models') or {}).values():
            for fname, f in (m.get('fields') or {}).items():
                attrs = f.get('attrs') or {}
                rel = f.get('type', '').endswith(('ForeignKey',
                                                  'OneToOneField'))
                for k in list(attrs):
                    if k in FIELD_DEFAULTS and attrs[k] == FIELD_DEFAULTS[k]:
                        del attrs[k]
                    elif k == 'db_index' and attrs[k] == rel:
                        del attrs[k]
                if not attrs:
                    f.pop('attrs', None)
            m['fields'] = dict(m.get('fields') or {})
    return apps


def stored_apps(snap):
    rows = snap['book'].get('django_project_version') or []
    if not rows:
        return None
    text = rows[-1][1]
    if not text.startswith('json!'):
        return None
    return normalise_apps(json.loads(text[5:])['apps'])


def features(scn):
    """Structural features of a sequence used to key known findings."""
    intro, gone = set(), set()
    reuse = False
    kinds = set()
    gone_models, recreated = set(), False
    touched_after_rename = False
    renamed = set()
    for m in scn['muts']:
        op = m['op']
        model = m.get('model')
        if op in ('AddField', 'ChangeField', 'DeleteField', 'RenameField'):
            names = [m.get('name'), m.get('old'), m.get('new'),
                     (m.get('field') or {}).get('name')]
            if any((model, n) in renamed for n in names if n):
                touched_after_rename = True
        if op == 'DeleteModel':
            gone_models.add(model)
        elif op == 'NewModel' and m['model']['name'] in gone_models:
            recreated = True
        if op == 'AddField':
            key = (model, m['field']['name'])
            if key in gone:
                reuse = True
                kinds.add('delete_then_add')
            intro.add(key)
        elif op == 'DeleteField':
            key = (model, m['name'])
            if key in intro:
                reuse = True
                kinds.add('add_then_delete')
            gone.add(key)
        elif op == 'RenameField':
            old, new = (model, m['old']), (model, m['new'])
            if old in intro or new in gone:
                reuse = True
                kinds.add('rename_of_added' if old in intro
                          else 'rename_to_freed')
            gone.add(old)
            intro.add(new)
            renamed.add(old)
            renamed.add(new)
    ops = ' '.join(mut_tags(scn))
    from evosim.props import c02
    merged = c02._merged_initials({'project': {'apps': {'va': {'steps': [
        {'evos': [{'mutations': [m for m in scn['muts']
                                 if m['op'] != 'NewModel']}]}]}}}})
    # a RenameField is "entangled" when another mutation of the sequence
    # names its old or its new field name on the same model
    entangled = False
    muts = scn['muts']
    for i, m in enumerate(muts):
        if m['op'] != 'RenameField':
            continue
        names = {m['old'], m['new']}
        for j, o in enumerate(muts):
            if i == j or o.get('model') != m.get('model'):
                continue
            onames = {o.get('name'), o.get('old'), o.get('new'),
                      (o.get('field') or {}).get('name')}
            if o['op'] == 'ChangeMeta':
                onames |= set(spec.fields_in_meta(
                    {'meta': {o['prop']: o['value']}}))
            if names & onames:
                entangled = True
    return {
        'merged_initials': merged,
        'rename_entangled': entangled,
        'has_rename_field': 'RenameField' in ops,
        'has_rename_model': 'RenameModel' in ops,
        'name_reuse': reuse,
        'reuse_kinds': sorted(kinds),
        'model_recreated': recreated,
        'idx_ops': bool(re.search(
            r'db_index|unique|db_column|ChangeMeta|:type', ops)),
    }


def run_twins(scn):
    """Execute the three continuations; returns a dict with runs/snapshots."""
    Pa = project_batched(scn)
    Pb = project_stepwise(scn)
    sa = proj.states(Pa)
    sb = proj.states(Pb)
    out = {'ok': False}
    with runner.Workspace() as ws:
        r0 = common.install(ws, Pa, sa, 0, scn['rows'])
        if getattr(r0, 'rows_rejected', None) or r0.status != 'ok':
            out['skip'] = 'install'
            out['runs'] = ws.nruns
            return out
        ws.fork_db('base')
        # (a) optimised, real Evolver
        proj.deploy(ws, Pa, 1, sa)
        mods = {'va': [e['label'] for e in Pa['apps']['va']['steps'][0]
                       ['evos']]}
        a = ws.run('evolve_probe', {'modules': mods},
                   hashseed=scn.get('hashseed', 0))
        out['a'] = a
        out['snap_a'] = snapshot.snapshot(ws)
        # (c) bare AppMutator
        ws.use_db('base')
        c = ws.run('appmutator', {'pkg': 'va', 'app_label': 'va',
                                  'labels': mods['va']})
        out['c'] = c
        out['snap_c'] = snapshot.snapshot(ws)
        # (b) one mutation per run
        ws.use_db('base')
        b_runs = []
        b_ok = True
        for i in range(1, len(scn['muts']) + 1):
            proj.deploy(ws, Pb, i, sb)
            r = ws.run('evolve', {'execute': True})
            b_runs.append(r)
            if r.status != 'ok':
                b_ok = False
                break
        out['b_runs'] = b_runs
        out['b_ok'] = b_ok
        out['snap_b'] = snapshot.snapshot(ws)
        out['runs'] = ws.nruns
        out['ok'] = True
    return out


def mut_tags(scn):
    tags = []
    for m in scn['muts']:
        t = m['op']
        if t == 'ChangeField':
            t += ':' + ','.join(sorted(m.get('attrs') or {}))
            if m.get('kind'):
                t += ':type'
        elif t == 'ChangeMeta':
            t += ':' + m['prop']
        tags.append(t)
    return tags


def compare_outcomes(snap_x, snap_b, tables):
    """Differences in schema / rows between an optimised outcome and the
    one-at-a-time outcome, for the given tables."""
    diffs = []
    for t in sorted(tables):
        if (t in snap_x['tables']) != (t in snap_b['tables']):
            diffs.append(('table_set', t))
            continue
        if t not in snap_x['tables']:
            continue
        for d in snapshot.diff_tables(snap_x['tables'][t],
                                      snap_b['tables'][t]):
            diffs.append(('schema', t) + tuple(d))
        if sorted(snap_x['tables'][t]['order']) == sorted(
                snap_b['tables'][t]['order']):
            ox, ob = snap_x['tables'][t]['order'], snap_b['tables'][t]['order']
            rx = sorted([sorted(zip(ox, r), key=repr) for r in
                         snap_x['tables'][t]['rows']], key=repr)
            rb = sorted([sorted(zip(ob, r), key=repr) for r in
                         snap_b['tables'][t]['rows']], key=repr)
            if rx != rb:
                diffs.append(('rows', t))
    return diffs


def execute(scn):
    stats, viols = {}, []
    tags = mut_tags(scn)
    res = {'violations': viols, 'stats': stats, 'nontrivial': False,
           'shape': spec.canon([tags, sorted({f['kind'] for m in scn['v0']
                                              for f in m['fields']})]),
           'runs': 0}
    tw = run_twins(scn)
    res['runs'] = tw.get('runs', 0)
    if not tw['ok']:
        stats['skipped_' + tw.get('skip', 'x')] = 1
        return res
    a, c = tw['a'], tw['c']
    detail = dict(ops=tags, ops_str=' '.join(tags),
                  clean=bool(scn.get('clean')),
                  family=scn.get('family') or 'general', **features(scn))
    if not tw['b_ok']:
        stats['stepwise_not_valid'] = 1
        last = tw['b_runs'][-1]
        stats['stepwise_fail_' + last.status] = 1
        return res
    stats['stepwise_ok'] = 1
    res['nontrivial'] = True
    if not any(features(scn).values()):
        stats['strict_scenario'] = 1
    user_tables = [t for t in set(tw['snap_b']['tables']) |
                   set(tw['snap_a']['tables']) | set(tw['snap_c']['tables'])
                   if not t.startswith(('django_', 'sqlite_'))]
    # (a) real evolver
    a_evolved = (a.exit or {}).get('evolved')
    if a.status != 'ok' or (not a_evolved and (a.exit or {}).get(
            'required')):
        viols.append(violation(
            'C03.rejected_valid', path='evolver', status=a.status,
            msg=((a.exit or {}).get('msg') or (a.exit or {}).get('diff')
                 or '')[:300], exc=(a.exit or {}).get('exc'), **detail))
    else:
        stats['evolver_accepted'] = 1
        for d in compare_outcomes(tw['snap_a'], tw['snap_b'], user_tables):
            rule = {'table_set': 'C03.schema', 'schema': 'C03.schema',
                    'rows': 'C03.rows'}[d[0]]
            viols.append(violation(rule, path='evolver', table=d[1],
                                   what=[str(x) for x in d[2:]][:6],
                                   **detail))
        sa_, sb_ = stored_apps(tw['snap_a']), stored_apps(tw['snap_b'])
        if sa_ is not None and sb_ is not None and sa_ != sb_:
            keys = [k for k in sorted(set(sa_) | set(sb_))
                    if sa_.get(k) != sb_.get(k)]
            viols.append(violation('C03.signature', path='evolver',
                                   apps=keys, **detail))
        p = a.probe('mutations') or {}
        if p.get('rewritten_by_prepare') or p.get('rewritten_by_evolve'):
            changed = []
            for k in sorted(p.get('before') or {}):
                if p['before'][k] != (p.get('after') or {}).get(k):
                    changed.append({'module': k, 'before': p['before'][k],
                                    'after': p['after'].get(k)})
            viols.append(violation('C03.mutations_rewritten',
                                   changed=changed[:3], **detail))
        if p and not p.get('second_pass_same_sql'):
            viols.append(violation('C03.second_pass_differs',
                                   sql1=str(p.get('sql1'))[:300],
                                   sql2=str(p.get('sql2'))[:300], **detail))
    # (c) bare AppMutator
    if c.status != 'ok':
        viols.append(violation(
            'C03.rejected_valid', path='appmutator', status=c.status,
            msg=((c.exit or {}).get('msg') or '')[:300],
            exc=(c.exit or {}).get('exc'), **detail))
    else:
        stats['appmutator_accepted'] = 1
        for d in compare_outcomes(tw['snap_c'], tw['snap_b'], user_tables):
            rule = {'table_set': 'C03.schema', 'schema': 'C03.schema',
                    'rows': 'C03.rows'}[d[0]]
            viols.append(violation(rule, path='appmutator', table=d[1],
                                   what=[str(x) for x in d[2:]][:6],
                                   **detail))
        sb_ = stored_apps(tw['snap_b'])
        try:
            c_sig = json.loads((c.exit or {}).get('app_sig') or 'null')
            if c_sig is not None:
                c_sig = normalise_apps({'va': c_sig})['va']
        except ValueError:
            c_sig = None
        if c_sig is not None and sb_ is not None and c_sig != sb_.get('va'):
            viols.append(violation('C03.signature', path='appmutator',
                                   apps=['va'], **detail))
        if (c.exit or {}).get('mutations_rewritten'):
            viols.append(violation('C03.mutations_rewritten',
                                   path='appmutator', **detail))
    # probes for evidence
    if sum(rebuild_counts(a).values()) < sum(
            sum(rebuild_counts(r).values()) for r in tw['b_runs']):
        stats['optimiser_saved_rebuilds'] = 1
    if len(scn.get('cuts') or []):
        stats['multi_label'] = 1
    res['sample'] = {'ops': tags, 'cuts': scn.get('cuts'),
                     'models': [m['name'] for m in scn['v0']],
                     'evolver': a.status, 'appmutator': c.status}
    return res


def shrinks(scn):
    # drop one mutation (sequence must stay generator-valid)
    for i in range(len(scn['muts'])):
        c = copy.deepcopy(scn)
        del c['muts'][i]
        c['cuts'] = []
        if not c['muts']:
            continue
        try:
            for st in proj.states(project_batched(c)):
                spec.validate_state(st)
        except (spec.SpecError, KeyError, ValueError, TypeError):
            continue
        yield c
    if scn.get('cuts'):
        c = copy.deepcopy(scn)
        c['cuts'] = []
        yield c
    if any(scn['rows'].values()):
        c = copy.deepcopy(scn)
        c['rows'] = {t: [] for t in c['rows']}
        yield c
    used = set()
    for m in scn['muts']:
        for k in ('model', 'old', 'new', 'name'):
            if isinstance(m.get(k), str):
                used.add(m[k])
        if m['op'] == 'ChangeMeta':
            used |= set(spec.fields_in_meta({'meta': {m['prop']:
                                                     m['value']}}))
    for mi, m in enumerate(scn['v0']):
        if m['name'] not in used and len(scn['v0']) > 1:
            c = copy.deepcopy(scn)
            del c['v0'][mi]
            c['rows'].pop(spec.table_name('va', m), None)
            try:
                for st in proj.states(project_batched(c)):
                    spec.validate_state(st)
            except (spec.SpecError, KeyError, ValueError, TypeError):
                continue
            yield c
        for fi, f in enumerate(m['fields']):
            if f['name'] in used or spec.fields_in_meta(m).get(f['name']):
                continue
            c = copy.deepcopy(scn)
            del c['v0'][mi]['fields'][fi]
            for r in c['rows'].get(spec.table_name('va', m), []):
                r.pop(spec.column_name(f), None)
            try:
                for st in proj.states(project_batched(c)):
                    spec.validate_state(st)
            except (spec.SpecError, KeyError, ValueError, TypeError):
                continue
            yield c
        for key in sorted(m.get('meta') or {}):
            if key == 'db_table' or not m['meta'][key]:
                continue
            for ei in range(len(m['meta'][key])):
                c = copy.deepcopy(scn)
                del c['v0'][mi]['meta'][key][ei]
                try:
                    for st in proj.states(project_batched(c)):
                        spec.validate_state(st)
                except (spec.SpecError, KeyError, ValueError, TypeError):
                    continue
                yield c
