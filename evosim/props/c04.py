"""C04 - all upgrade paths converge: fresh install, stepwise, direct.

For a generated history V0..Vn and a start version i: three databases are
brought to Vn - fresh install at Vn, one direct run from Vi, one run per
intermediate version - through the evolve command, the Evolver API or the
replaced migrate command, each run a fresh process.  Optionally one run of a
path is hit by an injected failure / crash first; the first fault-free run
afterwards must converge (bounded liveness).
"""
import copy

from evosim import history, project as proj, rowmodel, runner, scenarios, \
    snapshot, spec
from evosim.engine import violation
from evosim.props import common, c03, c07

ID = 'C04'
LEVEL = 'exploration'
LEVEL_TEXT = ('seeded search over generated histories x start points x paths '
              'x drivers (x one injected fault), every run a real process; '
              'differential (direct vs stepwise) and reference (fresh '
              'install, Django schema) oracles; sampling, not proof')
TECHNIQUE = ('deterministic simulation of upgrade histories: forked database '
             'states, one process per run, fault injection at a statement '
             'index, convergence by the first fault-free run')
PLAN = {
    'quick': {'count': 260, 'max_wall': 170, 'shrink_budget': 20,
              'shrink_wall': 150},
    'thorough': {'count': 3000, 'max_wall': 1700, 'shrink_budget': 50,
                 'shrink_wall': 400},
}
RULE_TEXT = (
    'scenario = history V0..Vn (n<=4) of one or two apps, 1-4 generated '
    'mutations per step and app, half of the histories from the strict '
    '"simple" configuration; a seeded start version i, driver in {evolve '
    'command, Evolver API, migrate}, optional fault (sql_error / crash at a '
    'seeded evolution statement of one run). Non-trivial = direct and '
    'stepwise both executed evolution SQL; distinct = digest of (per-step '
    'mutation kinds, start, driver, fault kind).')
ASSUMPTIONS = [
    'fresh install at Vn is the reference for schema / labels / signature',
    'rows are loaded at the start version from the row model of that '
    'version; direct and stepwise are compared with each other (exact)',
    'a fault landing in the deferred-SQL phase or in bookkeeping is a '
    'recorded C07 finding and gives no verdict here',
]


def generate(seed, index, tier):
    rng = scenarios.derive_rng(seed, ID, index)
    # (every third history lets its apps share their evolution labels)
    h = history.gen_history(rng, shared_labels={2: True, 5: 'offset'}.get(
        index % 6, False))
    n = proj.n_versions(h['project']) - 1
    h['start'] = rng.randrange(0, n)
    h['driver'] = rng.choice(['command', 'command', 'api', 'migrate'])
    h['hashseed'] = rng.choice([0, 0, 1, 2])
    if rng.random() < 0.3:
        h['fault'] = {'path': rng.choice(['direct', 'stepwise']),
                      'kind': rng.choice(['sql_error', 'sql_error', 'crash']),
                      'k': rng.randrange(0, 7),
                      'run': rng.randrange(0, max(1, n - h['start']))}
    h['clock_gap_us'] = rng.choice([0, 1, 10 ** 6, 400 * 86400 * 10 ** 6])
    return h


def _upgrade(ws, scn, fault=None, **kw):
    r = history.upgrade(ws, scn['driver'], hashseed=scn.get('hashseed', 0),
                        fault=fault, **kw)
    return r


def _noop_check(ws, scn, path, viols, detail):
    r = history.upgrade(ws, scn['driver'], probes=['sig'])
    ok = r.status == 'ok'
    if scn['driver'] in ('command',):
        ok = ok and 'No database upgrade required' in r.stdout()
    if scn['driver'] == 'api':
        ok = ok and not (r.exit or {}).get('required')
    if not ok:
        viols.append(violation(
            'C04.rerun_required', path=path, status=r.status,
            out=(r.stdout() + r.stderr() + str((r.exit or {}).get('msg')
                                               or ''))[-300:], **detail))
    w = [e for e in r.writes() if e.get('e') is not None or True]
    w = [e for e in r.writes()]
    if w:
        viols.append(violation('C04.rerun_executed_sql', path=path,
                               first=w[0]['sql'][:120], n_writes=len(w),
                               **detail))
    p = r.probe('sig') or {}
    # judged by the difference (what decides whether an upgrade is
    # required); '==' disagreeing with an empty difference is C05's subject
    if p and not p.get('error') and not (
            p.get('diff_st_empty') and p.get('diff_ts_empty')):
        viols.append(violation(
            'C04.stored_sig_not_current', path=path, eq=p.get('eq'),
            diff=(p.get('diff_st') or '')[:300], **detail))
    return r


def _unordered(models):
    """Normalised model specs with models and fields sorted by name: what
    a signature comparison sees (a field deleted and re-added identically
    ends up last in the table, but the signature is unchanged)."""
    out = spec.normalised_models(models)
    for m in out:
        m['fields'] = sorted(m['fields'], key=lambda f: f['name'])
    return sorted(out, key=lambda m: m['name'])


def execute(scn):
    P = scn['project']
    sts = proj.states(P)
    n = len(sts) - 1
    i = scn['start']
    stats, viols = {}, []
    muts = history.mutations_between(P, i, n)
    feats = history.features(muts)
    tags = [m['op'] for m in muts]
    lossy = False
    for st in sts:
        for a in st['apps']:
            for m in st['apps'][a]['models']:
                if any(v for k2, v in (m.get('meta') or {}).items()
                       if k2 != 'db_table') or any(
                        f['kind'] == 'PositiveInteger' for f in m['fields']):
                    lossy = True
    unchanged = False
    for a in P['order']:
        for j in range(i, n):
            for k2 in range(j + 1, n + 1):
                la, lb = proj.label_of(P, a, j), proj.label_of(P, a, k2)
                if la in sts[j]['apps'] and lb in sts[k2]['apps'] and \
                        spec.canon(_unordered(
                            sts[j]['apps'][la]['models'])) == spec.canon(
                        _unordered(
                            sts[k2]['apps'][lb]['models'])) and \
                        history.mutations_between(P, j, k2, app=a):
                    unchanged = True
    from evosim.props import c02
    merged = c02._merged_initials({'project': {'apps': {'va': {'steps': [
        {'evos': [{'mutations': [m for m in muts
                                 if m['op'] != 'NewModel']}]}]}}}})
    detail = dict(start=i, n=n, driver=scn['driver'], simple=scn['simple'],
                  clean=not lossy, app_unchanged=unchanged,
                  ops_str=' '.join(c03.mut_tags({'muts': muts})), **feats)
    fault = scn.get('fault')
    res = {'violations': viols, 'stats': stats, 'nontrivial': False,
           'shape': spec.canon([[
               [m['op'] for e in step['evos'] for m in e['mutations']]
               for step in P['apps']['va']['steps']], i, scn['driver'],
               (fault or {}).get('kind')]), 'runs': 0}
    rows_i = scn['rows_by_version'][i]
    runs = 0
    out = {}
    # ---- fresh ------------------------------------------------------------
    with runner.Workspace() as ws:
        proj.deploy(ws, P, n, sts)
        r = _upgrade(ws, scn)
        out['fresh_run'] = r
        if r.status == 'ok':
            out['fresh'] = snapshot.snapshot(ws)
            _noop_check(ws, scn, 'fresh', viols, detail)
        runs += ws.nruns
    # ---- direct and stepwise ------------------------------------------------
    for path in ('direct', 'stepwise'):
        with runner.Workspace() as ws:
            proj.deploy(ws, P, i, sts)
            r0 = _upgrade(ws, scn)
            if r0.status != 'ok':
                stats['install_failed'] = 1
                res['runs'] = runs + ws.nruns
                return res
            import sqlite3
            try:
                rowmodel.load(ws.db_path(), rows_i)
            except (sqlite3.IntegrityError, sqlite3.OperationalError):
                stats['rows_rejected'] = 1
                res['runs'] = runs + ws.nruns
                return res
            ws.advance_clock(scn.get('clock_gap_us', 0))
            targets = [n] if path == 'direct' else list(range(i + 1, n + 1))
            path_runs = []
            failed = None
            no_verdict = False
            for idx, j in enumerate(targets):
                proj.deploy(ws, P, j, sts)
                if fault and fault['path'] == path and (
                        fault['run'] == idx or path == 'direct'):
                    fr = _upgrade(ws, scn, fault={
                        'kind': fault['kind'], 'k': fault['k'],
                        'scope': 'evo'})
                    path_runs.append(fr)
                    inj = fr.injected()
                    if inj is not None:
                        stats['fired_' + fault['kind']] = 1
                        if c07._phase(fr) != 'bracket':
                            no_verdict = True
                            stats['fault_outside_bracket'] = 1
                r = _upgrade(ws, scn)
                path_runs.append(r)
                if r.status != 'ok':
                    failed = r
                    break
            out[path + '_runs'] = path_runs
            out[path + '_failed'] = failed
            out[path + '_no_verdict'] = no_verdict
            if failed is None:
                out[path] = snapshot.snapshot(ws)
                if not no_verdict:
                    _noop_check(ws, scn, path, viols, detail)
            runs += ws.nruns
    res['runs'] = runs
    d_ok = 'direct' in out and not out['direct_no_verdict']
    s_ok = 'stepwise' in out and not out['stepwise_no_verdict']
    if out.get('direct_no_verdict') or out.get('stepwise_no_verdict'):
        stats['no_verdict_path'] = 1
    for path in ('direct', 'stepwise'):
        f = out.get(path + '_failed')
        other = 'stepwise' if path == 'direct' else 'direct'
        if f is not None and not out.get(path + '_no_verdict'):
            if other in out:
                viols.append(violation(
                    'C04.path_failed', path=path, status=f.status,
                    msg=((f.exit or {}).get('msg') or '')[:300],
                    faulted=bool(fault and fault['path'] == path), **detail))
            else:
                stats['both_paths_failed'] = 1
    if d_ok and s_ok and out['direct'] and out['stepwise']:
        sd, ss = out['direct'], out['stepwise']
        user = [t for t in set(sd['tables']) | set(ss['tables'])
                if not t.startswith(('django_', 'sqlite_'))]
        for d in c03.compare_outcomes(sd, ss, user):
            if d[0] == 'rows':
                continue        # judged below on preserved columns only
            rule = {'table_set': 'C04.schema_paths_differ',
                    'schema': 'C04.schema_paths_differ'}[d[0]]
            viols.append(violation(rule, table=d[1],
                                   what=[str(x) for x in d[2:]][:6],
                                   **detail))
        # 'the same preserved data': columns that held data at the start
        # version and still exist at the end (fill values of columns added
        # on the way are not preserved data)
        for t in sorted(rows_i):
            if not rows_i[t] or t not in sd['tables'] or t not in \
                    ss['tables']:
                continue
            cols = [c for c in sorted(rows_i[t][0])
                    if c in sd['tables'][t]['order']
                    and c in ss['tables'][t]['order']]

            def proj_rows(snap):
                order = snap['tables'][t]['order']
                idx = [order.index(c) for c in cols]
                return sorted([tuple(r[k] for k in idx)
                               for r in snap['tables'][t]['rows']], key=repr)
            if proj_rows(sd) != proj_rows(ss):
                viols.append(violation('C04.rows_paths_differ', table=t,
                                       columns=cols, **detail))
            want = sorted([tuple(r[c] for c in cols) for r in rows_i[t]],
                          key=repr)
            if 'id' in cols and len(want) != len(proj_rows(sd)):
                viols.append(violation('C04.rows_lost', table=t,
                                       path='direct', **detail))
        if common.labels_of(sd) != common.labels_of(ss):
            viols.append(violation('C04.labels_differ', a='direct',
                                   b='stepwise', **detail))
        if c03.stored_apps(sd) != c03.stored_apps(ss):
            viols.append(violation('C04.sig_paths_differ', a='direct',
                                   b='stepwise', **detail))
        if any(r.writes() for r in out['direct_runs'][-1:]) and any(
                r.writes() for r in out['stepwise_runs']):
            res['nontrivial'] = True
    # fresh vs upgraded
    if 'fresh' in out:
        sf = out['fresh']
        apps = sorted(sts[n]['apps'])
        for path in ('direct', 'stepwise'):
            if path not in out or out.get(path + '_no_verdict'):
                continue
            sp = out[path]
            rebuilt = []
            for r in out[path + '_runs']:
                rebuilt += common.rebuilt_tables(r)
            for d in common.schema_diffs(sp, sf, sts[n], apps):
                viols.append(violation(
                    'C04.fresh_schema_differs', path=path, table=d['table'],
                    kind=d['kind'], what=d['what'], origin=d.get('origin'),
                    shadowed=d.get('shadowed', False),
                    rebuilt=d['table'] in rebuilt, **detail))
            want = set(common.app_tables(sts[n], apps))
            for t in sorted(set(sp['tables']) - set(sf['tables'])):
                if not t.startswith(('django_', 'sqlite_')):
                    viols.append(violation(
                        'C04.fresh_schema_differs', path=path, table=t,
                        kind='table_extra', what=[], origin=None,
                        shadowed=False, rebuilt=False, **detail))
            if common.labels_of(sp) != common.labels_of(sf):
                viols.append(violation(
                    'C04.labels_differ', a=path, b='fresh',
                    only_a=[x for x in common.labels_of(sp)
                            if x not in common.labels_of(sf)][:5],
                    only_b=[x for x in common.labels_of(sf)
                            if x not in common.labels_of(sp)][:5], **detail))
            if c03.stored_apps(sp) != c03.stored_apps(sf):
                viols.append(violation('C04.sig_paths_differ', a=path,
                                       b='fresh', **detail))
    elif out['fresh_run'].status != 'ok':
        viols.append(violation(
            'C04.path_failed', path='fresh',
            status=out['fresh_run'].status,
            msg=((out['fresh_run'].exit or {}).get('msg') or '')[:300],
            faulted=False, **detail))
    if scn['simple']:
        stats['simple_history'] = 1
    stats['driver_' + scn['driver']] = 1
    if fault:
        stats['fault_configured'] = 1
    res['sample'] = {'start': i, 'n': n, 'driver': scn['driver'],
                     'fault': fault, 'ops_per_step': [
                         [m['op'] for e in step['evos']
                          for m in e['mutations']]
                         for step in P['apps']['va']['steps']]}
    return res


def shrinks(scn):
    P = scn['project']
    n = proj.n_versions(P) - 1
    # drop the fault
    if scn.get('fault'):
        c = copy.deepcopy(scn)
        c.pop('fault')
        yield c
    # drop the last step
    if n > 1 and scn['start'] < n - 1:
        c = copy.deepcopy(scn)
        for a in c['project']['apps']:
            c['project']['apps'][a]['steps'].pop()
        c['rows_by_version'].pop()
        yield c
    # start later
    if scn['start'] < n - 1:
        c = copy.deepcopy(scn)
        c['start'] += 1
        yield c
    # drop first step (shift V0)
    if scn['driver'] != 'command':
        c = copy.deepcopy(scn)
        c['driver'] = 'command'
        yield c
    if 'vb' in P['apps']:
        c = copy.deepcopy(scn)
        vb = set()
        for st in proj.states(P):
            vb |= set(common.app_tables(st, ['vb']))
        del c['project']['apps']['vb']
        c['project']['order'] = ['va']
        for rv in c['rows_by_version']:
            for t in vb:
                rv.pop(t, None)
        try:
            for st in proj.states(c['project']):
                spec.validate_state(st)
            yield c
        except (spec.SpecError, KeyError):
            pass
    if any(any(v.values()) for v in scn['rows_by_version']):
        c = copy.deepcopy(scn)
        c['rows_by_version'] = [{t: [] for t in rv}
                                for rv in c['rows_by_version']]
        yield c
