"""C05 - the hinted evolution for a model change fully resolves that change.

Process A installs V0 (the signature goes through storage); the models are
replaced by V1; process B deserialises the stored signature, builds the
target signature from the live models, computes the hinted evolution from
their difference, simulates it on a clone of the stored signature and
reports the residual difference, plus self / clone / equality-vs-difference
agreement.  A second probe runs after the hint has been executed (stored'
vs. target: explicit-default attributes written by mutations).
"""
import copy
import json

from evosim import gen, project as proj, runner, scenarios, snapshot, spec
from evosim.engine import violation
from evosim.props import common

ID = 'C05'
LEVEL = 'exploration'
LEVEL_TEXT = ('input sampling with a seeded generator of model pairs; the '
              'simulator contributes the process/storage boundary (one side '
              'of each pair has been through the version table, the other '
              'is built from live models); sampling, not proof')
TECHNIQUE = ('deterministic simulation of the store / deploy / load '
             'lifecycle feeding an in-child differential probe (hinted '
             'evolution simulated on the stored signature vs the target '
             'signature)')
PLAN = {
    'quick': {'count': 700, 'max_wall': 170, 'shrink_budget': 30,
              'shrink_wall': 100},
    'thorough': {'count': 9000, 'max_wall': 1500, 'shrink_budget': 60,
                 'shrink_wall': 300},
}
RULE_TEXT = (
    'scenario = model set V0 + target V1 from 1-4 generated edits (added / '
    'deleted / re-typed fields, every tracked attribute, unique_together / '
    'index_together / indexes / constraints changes, deleted and new '
    'models, relations) or a special edit (reordered Meta.indexes / '
    'constraints, db_table-only change, defaults stated explicitly); '
    'non-trivial = the difference is non-empty; distinct = digest of '
    '(hinted mutation kinds, special edit).')
RULE_TEXT += ' Further special edit: db_index of a ForeignKey / OneToOneField toggled around its per-type default.'
ASSUMPTIONS = [
    'only signature pairs reachable from generated models are sampled; '
    'directly constructed signatures are out of reach (DESIGN section 7)',
    'renames are not "supported ways" for hints and are not generated',
]


def generate(seed, index, tier):
    rng = scenarios.derive_rng(seed, ID, index)
    cfg = gen.swarm_config(rng)
    cfg['ops']['RenameModel'] = 0
    cfg['ops']['RenameField'] = 0
    cfg['ops']['DeleteModel'] = 1
    cfg['ops']['NewModel'] = 1
    cfg['index_conditions'] = True
    if rng.random() < 0.7:
        cfg['meta'] = sorted(set(cfg['meta']) | set(rng.sample(
            ['unique_together', 'index_together', 'indexes', 'constraints'],
            2)))
    scn = scenarios.single_step(rng, cfg=cfg, two_apps=rng.random() < 0.3)
    scn['rows'] = {t: [] for t in scn['rows']}
    sts = proj.states(scn['project'])
    target = copy.deepcopy(sts[1]['apps']['va']['models'])
    special = None
    r = rng.random()
    if r < 0.15:
        base0 = copy.deepcopy(sts[0]['apps']['va']['models'])
        cands = [(m, k) for m in base0 for k in ('indexes', 'constraints')
                 if len((m.get('meta') or {}).get(k) or []) >= 2]
        if cands:
            m, k = rng.choice(cands)
            m['meta'][k] = list(reversed(m['meta'][k]))
            special = 'reorder_' + k
            target = base0
    elif r < 0.25:
        target = copy.deepcopy(sts[0]['apps']['va']['models'])
        m = rng.choice(target)
        m.setdefault('meta', {})['db_table'] = 'only_tbl'
        special = 'db_table_only'
    elif r < 0.35:
        target = copy.deepcopy(sts[0]['apps']['va']['models'])
        hit = False
        for m in target:
            for f in m['fields']:
                if f['kind'] in ('Integer', 'Char', 'BigInteger') and \
                        'null' not in f['attrs']:
                    f['attrs']['null'] = False      # default, explicit
                    hit = True
        special = 'explicit_defaults' if hit else None
    elif r < 0.47:
        # per-type defaults: db_index of a ForeignKey / OneToOneField
        # defaults to True, of everything else to False; toggling it is a
        # real difference in both cases
        target = copy.deepcopy(sts[0]['apps']['va']['models'])
        fks = [f for m in target for f in m['fields']
               if f['kind'] in ('ForeignKey', 'OneToOne')]
        if fks:
            f = rng.choice(fks)
            if f['attrs'].get('db_index', True):
                f['attrs']['db_index'] = False
            else:
                f['attrs'].pop('db_index')
            special = 'fk_db_index'
        else:
            target = copy.deepcopy(sts[1]['apps']['va']['models'])
    scn['target'] = target
    scn['special'] = special
    scn['h1'], scn['h2'] = rng.sample([0, 1, 2], 2)
    return scn


def execute(scn):
    P = scn['project']
    sts = proj.states(P)
    stats, viols = {}, []
    res = {'violations': viols, 'stats': stats, 'nontrivial': False,
           'shape': None, 'runs': 0}
    P2 = copy.deepcopy(P)
    step = P2['apps']['va']['steps'][0]
    step['target'] = scn['target']
    step['evos'] = []
    st1 = copy.deepcopy(sts[0])
    st1['apps']['va']['models'] = copy.deepcopy(scn['target'])
    try:
        spec.validate_state(st1)
    except spec.SpecError:
        stats['invalid_target'] = 1
        return res
    sts2 = [sts[0], st1]
    with runner.Workspace() as ws:
        r0 = common.install(ws, P, sts, 0, None, hashseed=scn['h1'])
        if r0.status != 'ok':
            stats['install_skipped'] = 1
            res['runs'] = ws.nruns
            return res
        proj.deploy(ws, P2, 1, sts2)
        b = ws.run('hint_probe', {}, hashseed=scn['h2'])
        p = b.probe('hint') or {}
        res['runs'] = ws.nruns
        if b.status != 'ok' or not p:
            viols.append(violation(
                'C05.probe_failed', status=b.status,
                msg=((b.exit or {}).get('msg') or '')[:300],
                special=scn.get('special')))
            return res
        kinds = sorted({m.split('(')[0] for v in p['hinted'].values()
                        for m in v})
        tags = common.hint_tags('MUTATIONS = [\n%s\n]' % '\n'.join(
            '    %s,' % m for v in p['hinted'].values() for m in v))
        res['shape'] = spec.canon([sorted(tags), scn.get('special'),
                                   sorted(p['hinted'])])
        res['nontrivial'] = not p['diff_empty']
        detail = dict(kinds=kinds, special=scn.get('special'),
                      hinted=[m[:120] for v in p['hinted'].values()
                              for m in v][:4])
        placeholder = any('USER VALUE REQUIRED' in m or 'Placeholder' in m
                          for v in p['hinted'].values() for m in v)
        if not p['residual_empty']:
            if placeholder and p['sim_errors']:
                stats['placeholder_needed'] = 1
            else:
                viols.append(violation(
                    'C05.hint_residual', residual=p['residual'][:400],
                    sim_errors=p['sim_errors'][:2], **detail))
        if not p['self_diff_empty']:
            viols.append(violation('C05.self_diff', **detail))
        if not p['clone_diff_empty'] or not p['clone_eq']:
            viols.append(violation('C05.clone_diff', eq=p['clone_eq'],
                                   **detail))
        for pair, ok in sorted(p['agree'].items()):
            if not ok:
                viols.append(violation(
                    'C05.eq_diff_disagree', pair=pair, eq=p['eq'][pair],
                    diff_empty=p['empty'][pair],
                    diff=p['diff_text'][:300] if pair == 'stored_target'
                    else '', **detail))
        # second probe: after executing the hint, stored' vs target
        if not p['diff_empty'] and p['residual_empty'] and not placeholder:
            x = ws.run('evolve', {'hint': True, 'execute': True},
                       hashseed=scn['h2'])
            if x.status == 'ok':
                b2 = ws.run('hint_probe', {}, hashseed=scn['h1'])
                p2 = b2.probe('hint') or {}
                res['runs'] = ws.nruns
                stats['second_probe'] = 1
                if p2:
                    if not p2['diff_empty']:
                        viols.append(violation(
                            'C05.hint_residual', after_execute=True,
                            residual=p2['diff_text'][:400], **detail))
                    if not p2['agree'].get('stored_target', True):
                        viols.append(violation(
                            'C05.eq_diff_disagree',
                            pair='stored_target_after_execute',
                            eq=p2['eq']['stored_target'],
                            diff_empty=p2['empty']['stored_target'],
                            **detail))
            else:
                stats['hint_execute_failed'] = 1     # C01's business
        if scn.get('special'):
            stats['special_' + scn['special']] = 1
        res['sample'] = {'kinds': kinds, 'special': scn.get('special'),
                         'hinted': detail['hinted']}
    return res


def shrinks(scn):
    if scn.get('special'):
        return
    for c in scenarios.shrink_single_step(scn):
        try:
            sts = proj.states(c['project'])
            c['target'] = copy.deepcopy(sts[1]['apps']['va']['models'])
        except Exception:
            continue
        yield c
