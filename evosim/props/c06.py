"""C06 - stored project signatures read back exactly as written.

Process A (hash seed h1) installs a generated project and thereby writes the
signature; process B (hash seed h2, later clock) loads it the normal way
(evolve with nothing to do) and reports in-child probes: equality with the
signature of the unchanged models, diff emptiness both ways, re-serialised
text vs. stored text.  A third process installs the same project under h2 in
another database: the stored text must not depend on the hash seed.
"""
from evosim import gen, project as proj, runner, scenarios, snapshot
from evosim.engine import violation
from evosim.props import common

ID = 'C06'
LEVEL = 'exploration'
LEVEL_TEXT = ('seeded search over generated model sets: the signature is written by one process and read by another under a different hash seed and clock; sampling over inputs, not exhaustive')
TECHNIQUE = ('deterministic simulation of the store/load process boundary under hash-seed and clock variation, in-child equality probes + byte comparison of stored text')
PLAN = {
    'quick': {'count': 700, 'max_wall': 170, 'shrink_budget': 40,
              'shrink_wall': 100},
    'thorough': {'count': 6000, 'max_wall': 1200, 'shrink_budget': 80,
                 'shrink_wall': 300},
}
RULE_TEXT = (
    'scenario = random model set biased to exotic value shapes (nested / '
    'negated / OR / XOR Q trees in check constraints, index and unique '
    'constraint conditions, F-expression indexes, Deferrable, ordering '
    'prefixes, unicode and quote characters, None/False/0 values, db_column, '
    'db_table, relations incl. M2M); written by one process, read by '
    'another under a different PYTHONHASHSEED and later clock. Non-trivial = '
    'the project has at least one Meta feature or relation; distinct = '
    'distinct canonical JSON of the model specs.')
RULE_TEXT += ' Also: non-ASCII table / column names (40%), legacy version-1 pickled signatures, signatures re-read after an executed upgrade (explicit None attributes).'
ASSUMPTIONS = [
    'values reachable from model definitions only (directly constructed '
    'signatures are out of reach of this technique, see DESIGN section 7)',
    'equality judged by the code under test (__eq__, Diff) and by byte '
    'comparison of the stored text (independent of the code under test)',
]


def generate(seed, index, tier):
    rng = scenarios.derive_rng(seed, ID, index)
    cfg = gen.default_config()
    cfg['max_models'] = rng.choice([1, 2, 3])
    cfg['index_conditions'] = True
    cfg['q_wrap'] = rng.random() < 0.5
    cfg['q_conn1'] = rng.random() < 0.5
    cfg['relations'] = rng.random() < 0.7
    cfg['m2m'] = cfg['relations'] and rng.random() < 0.6
    if rng.random() < 0.25:
        cfg['meta'] = [m for m in cfg['meta'] if rng.random() < 0.5]
    if rng.random() < 0.2:
        # the subset a version-1 signature can express
        cfg['meta'] = ['unique_together', 'index_together']
    g = gen.Gen(rng, cfg)
    apps = ['vb', 'va'] if rng.random() < 0.3 else ['va']
    st = g.gen_state(apps)
    # make Meta features likely
    for a in apps:
        for m in st['apps'][a]['models']:
            for _ in range(2):
                if not m['meta'].get('constraints') and 'constraints' in \
                        cfg['meta'] and rng.random() < 0.5:
                    c = g.gen_constraint(m)
                    if c:
                        m['meta'].setdefault('constraints', []).append(c)
                if 'indexes' in cfg['meta'] and rng.random() < 0.4:
                    ix = g.gen_index(m)
                    if ix:
                        m['meta'].setdefault('indexes', []).append(ix)
                        try:
                            gen.spec.validate_state(st)
                        except gen.SpecError:
                            m['meta']['indexes'].pop()
    if rng.random() < 0.4:
        # non-ASCII identifiers (Latin-1 supplement, Latin Extended, CJK):
        # stored text must survive both the JSON and the pickle encoding
        marks = ['\u00e9', '\u00df', '\u0142', '\u4e2d', '\u00ff', 'json!',
                 '_json!x']
        n_uni = 0
        for a in apps:
            for m in st['apps'][a]['models']:
                if (m.get('meta') or {}).get('db_table') and \
                        rng.random() < 0.7:
                    m['meta']['db_table'] += '_' + rng.choice(marks)
                    n_uni += 1
                for f in m['fields']:
                    if f['kind'] == 'ManyToMany':
                        continue
                    if f['attrs'].get('db_column') and rng.random() < 0.7:
                        f['attrs']['db_column'] += rng.choice(marks)
                        n_uni += 1
        if not n_uni:
            for a in apps:
                for m in st['apps'][a]['models']:
                    for f in m['fields']:
                        if f['kind'] not in gen.spec.REL_KINDS and not n_uni:
                            f['attrs']['db_column'] = 'nom_caf\u00e9'
                            n_uni += 1
        try:
            gen.spec.validate_state(st)
        except gen.SpecError:
            pass
    project = {'apps': {a: {'v0': st['apps'][a]['models'], 'steps': []}
                        for a in apps},
               'order': apps, 'databases': ['default']}
    h1, h2 = rng.sample([0, 1, 2], 2)
    v1_ok = all(not (m.get('meta') or {}).get('indexes')
                and not (m.get('meta') or {}).get('constraints')
                for a in apps for m in st['apps'][a]['models'])
    step_muts = None
    if rng.random() < 0.4:
        # a second phase: the signature stored AFTER an upgrade (mutations
        # write attribute values such as explicit None / False into it)
        cfg2 = dict(cfg)
        cfg2['ops'] = {'ChangeField': 8, 'AddField': 2, 'RenameField': 1,
                       'DeleteField': 0, 'ChangeMeta': 0, 'RenameModel': 0,
                       'DeleteModel': 0, 'NewModel': 0, 'SQLMutation': 0}
        cfg2['db_column'] = True
        cfg2['type_changes'] = False
        g2 = gen.Gen(rng, cfg2)
        g2.counter = 500
        muts, st1, _ = g2.gen_sequence(st, 'va', rng.choice([1, 2, 3]), {
            t: [] for t in []} or None)
        if muts:
            step_muts = muts
            project['apps']['va']['steps'].append(
                {'evos': [{'label': 'e1', 'mutations': muts}]})
            for a in apps:
                if a != 'va':
                    project['apps'][a]['steps'].append({'evos': []})
    return {'project': project, 'h1': h1, 'h2': h2,
            'after_upgrade': bool(step_muts),
            'legacy': bool(v1_ok and rng.random() < 0.6) and not step_muts,
            'clock_gap_us': rng.choice([0, 1, 10 ** 6, 86400 * 10 ** 6])}


def _sig_text(snap):
    rows = snap['book'].get('django_project_version') or []
    return rows[-1][1] if rows else None


def execute(scn):
    P = scn['project']
    sts = proj.states(P)
    viols, stats = [], {}
    feats = set()
    for a in P['apps']:
        for m in P['apps'][a]['v0']:
            for k, v in (m.get('meta') or {}).items():
                if v:
                    feats.add(k)
            for f in m['fields']:
                if f.get('to'):
                    feats.add('relation')
    res = {'violations': viols, 'stats': stats,
           'nontrivial': bool(feats),
           'shape': scenarios.spec.canon(P['apps']), 'runs': 0}
    with runner.Workspace() as ws:
        r0 = common.install(ws, P, sts, 0, hashseed=scn['h1'])
        if r0.status != 'ok':
            stats['install_failed'] = 1
            viols.append(violation('C06.install_failed', status=r0.status,
                                   msg=(r0.exit or {}).get('msg', '')[:300]))
            res['runs'] = ws.nruns
            return res
        s1 = snapshot.snapshot(ws)
        if scn.get('legacy'):
            # the same content as a version-1 pickle (a database last
            # touched by Django Evolution 1.x)
            lg = ws.run('legacy_sig', {}, hashseed=scn['h1'])
            if lg.status != 'ok':
                raise runner.HarnessError('legacy_sig failed: %s' % (
                    (lg.exit or {}).get('msg'),))
            stats['legacy_v1'] = 1
        ws.advance_clock(scn.get('clock_gap_us', 0))
        r = ws.run('evolve', {'execute': True}, hashseed=scn['h2'],
                   probes=['sig'])
        p = r.probe('sig') or {}
        detail = dict(features=sorted(feats), legacy=bool(scn.get('legacy')))
        if p.get('error'):
            viols.append(violation('C06.load_failed', error=p['error'][:300],
                                   **detail))
        elif scn.get('legacy'):
            # version-1 signatures cannot express upgrade methods / applied
            # migrations (contenttypes): judge the generated apps only
            for a in P['order']:
                if not (p.get('apps_eq') or {}).get(a):
                    viols.append(violation('C06.v1_content', app=a,
                                           **detail))
        else:
            if not p.get('eq'):
                viols.append(violation('C06.not_equal', **detail))
            if not p.get('diff_st_empty') or not p.get('diff_ts_empty'):
                viols.append(violation(
                    'C06.diff_nonempty', diff=p.get('diff_st', '')[:300],
                    st=p.get('diff_st_empty'), ts=p.get('diff_ts_empty'),
                    **detail))
            if not p.get('reserialise_equal') and not scn.get('legacy'):
                viols.append(violation(
                    'C06.reserialise_differs',
                    order_only=bool(p.get('reserialise_content_equal')),
                    **detail))
            if not p.get('clone_eq') or not p.get('clone_diff_empty') or \
                    not p.get('self_diff_empty'):
                viols.append(violation('C06.clone_or_self', **{
                    k: p.get(k) for k in ('clone_eq', 'clone_diff_empty',
                                          'self_diff_empty')}, **detail))
        if not scn.get('legacy') and (
                r.status != 'ok' or 'No database upgrade required' not in
                r.stdout()):
            viols.append(violation(
                'C06.rerun_required', status=r.status,
                out=(r.stdout() + r.stderr())[-300:], **detail))
        if scn.get('after_upgrade') and r.status == 'ok':
            proj.deploy(ws, P, 1, sts)
            u = ws.run('evolve', {'execute': True}, hashseed=scn['h1'])
            if u.status == 'ok' and u.writes():
                stats['after_upgrade'] = 1
                r3 = ws.run('evolve', {'execute': True},
                            hashseed=scn['h2'], probes=['sig'])
                p3 = r3.probe('sig') or {}
                d3 = dict(detail, phase='after_upgrade',
                          ops=common.op_tags(P))
                if p3 and not p3.get('error'):
                    if not p3.get('reserialise_equal'):
                        viols.append(violation(
                            'C06.reserialise_differs',
                            order_only=bool(p3.get(
                                'reserialise_content_equal')), **d3))
                    if not p3.get('clone_eq') or not p3.get(
                            'clone_diff_empty') or not p3.get(
                            'self_diff_empty'):
                        viols.append(violation('C06.clone_or_self', **dict(
                            d3, clone_eq=p3.get('clone_eq'))))
                    if not p3.get('diff_st_empty') or not p3.get(
                            'diff_ts_empty'):
                        viols.append(violation(
                            'C06.diff_nonempty',
                            diff=p3.get('diff_st', '')[:300],
                            st=p3.get('diff_st_empty'),
                            ts=p3.get('diff_ts_empty'), **d3))
            else:
                stats['after_upgrade_not_executed'] = 1
        res['runs'] = ws.nruns
    with runner.Workspace() as ws2:
        r0 = common.install(ws2, P, sts, 0, hashseed=scn['h2'])
        res['runs'] += ws2.nruns
        if r0.status == 'ok':
            s2 = snapshot.snapshot(ws2)
            if _sig_text(s1) != _sig_text(s2):
                viols.append(violation('C06.cross_hashseed_text',
                                       h1=scn['h1'], h2=scn['h2'],
                                       features=sorted(feats)))
    stats['loaded'] = 1
    for f in feats:
        stats['feat_' + f] = 1
    res['sample'] = {'models': {a: [m['name'] for m in P['apps'][a]['v0']]
                                for a in P['apps']},
                     'features': sorted(feats), 'h1': scn['h1'],
                     'h2': scn['h2']}
    return res


def shrinks(scn):
    import copy
    from evosim import spec
    P = scn['project']
    for a in sorted(P['apps']):
        if len(P['apps']) > 1:
            c = copy.deepcopy(scn)
            del c['project']['apps'][a]
            c['project']['order'] = [x for x in c['project']['order']
                                     if x != a]
            if scenarios._valid(c):
                yield c
        for mi, m in enumerate(P['apps'][a]['v0']):
            if len(P['apps'][a]['v0']) > 1:
                c = copy.deepcopy(scn)
                del c['project']['apps'][a]['v0'][mi]
                if scenarios._valid(c):
                    yield c
            for key in sorted(m.get('meta') or {}):
                if key == 'db_table':
                    c = copy.deepcopy(scn)
                    del c['project']['apps'][a]['v0'][mi]['meta'][key]
                    if scenarios._valid(c):
                        yield c
                    continue
                for ei in range(len(m['meta'][key] or [])):
                    c = copy.deepcopy(scn)
                    del c['project']['apps'][a]['v0'][mi]['meta'][key][ei]
                    if scenarios._valid(c):
                        yield c
            for fi in range(len(m['fields'])):
                c = copy.deepcopy(scn)
                del c['project']['apps'][a]['v0'][mi]['fields'][fi]
                if scenarios._valid(c):
                    yield c
