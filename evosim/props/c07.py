"""C07 - a failed upgrade leaves the database as it was and can be retried.

For each generated single-batch upgrade: from one forked database state run
(u) uninterrupted, then for EVERY eligible statement index k: (f_k) the same
upgrade with an injected database error at statement k, snapshot, then a
fault-free retry, snapshot.  Also crash@k (process death) for every k in the
thorough tier and a sample in the quick tier, and the bookkeeping scope
(writes to django_project_version / django_evolution / django_migrations).
"""
from evosim import project as proj, runner, scenarios, snapshot
from evosim.engine import violation
from evosim.props import common, c01

ID = 'C07'
LEVEL = 'fault_enumeration'
LEVEL_TEXT = ('complete enumeration of every injected-failure point k (and crash point) of each generated upgrade run, sampled over programs: for each program the fault dimension is exhaustive, the program dimension is seeded search')
TECHNIQUE = ('deterministic simulation with fault injection: sql_error@k / crash@k at every statement index via connection.execute_wrapper, forked database state, retry, snapshot comparison')
PLAN = {
    'quick': {'count': 90, 'max_wall': 170, 'shrink_budget': 12,
              'shrink_wall': 150},
    'thorough': {'count': 1500, 'max_wall': 1700, 'shrink_budget': 40,
                 'shrink_wall': 400},
}
RULE_TEXT = (
    'program = generated single-batch upgrade (C01 generator, incl. new '
    'models in the same batch => model creation + deferred SQL, hinted or '
    'written evolutions, 1-2 apps - in 60% of the two-app programs both apps '
    'create a model in the batch -, rows present, 25% of the programs evolve '
    'the non-default database alias); for each program every '
    'eligible write statement index k of the uninterrupted run gets an '
    'injected OperationalError (scope evo: rebuild / index / model creation '
    '/ deferred SQL; scope book: version+evolution+migration bookkeeping), '
    'then a fault-free retry; crash@k likewise (all k in thorough, sampled in '
    'quick). evaluations = programs; distinct_nontrivial = distinct '
    '(program shape digest) among programs whose fault actually fired at '
    'least once. fault_points counts every (program,k,kind) executed.')
RULE_TEXT += ' 1 in 5 written default-alias programs run through the Evolver API inside a caller-held transaction (api_nested).'
ASSUMPTIONS = [
    'SQLite transactional DDL; process death, not power loss',
    'the statement stream of the uninterrupted run enumerates the fault '
    'points of the faulted runs (same code, same input, determinism '
    'self-test)',
    'pre-state equality = identical sqlite_master rows and identical rows in '
    'every table including bookkeeping tables',
]


def generate(seed, index, tier):
    rng = scenarios.derive_rng(seed, ID, index)
    scn = scenarios.single_step(rng, new_models=rng.random() < 0.35)
    scn['mode'] = 'hinted' if rng.random() < 0.2 else 'written'
    scn['hashseed'] = 0
    scn['crash_all'] = (tier == 'thorough')
    scn['crash_sample'] = rng.random()
    # the batch transaction must protect whichever database is evolved
    scn['alias'] = 'other' if rng.random() < 0.25 else 'default'
    # the Evolver API called inside a transaction the caller holds open
    if scn['alias'] == 'default' and scn['mode'] == 'written' and \
            index % 5 == 4:
        scn['driver'] = 'api_nested'
    # a second app gains a model in the same upgrade (one batch creating
    # models for two apps)
    P = scn['project']
    if 'vb' in P['apps'] and rng.random() < 0.6:
        taken = {m['name'] for m in P['apps']['vb']['v0']}
        name = [n for n in ('Zed', 'Part', 'Node') if n not in taken][0]
        P['apps']['vb']['steps'] = [{'evos': [{
            'label': '_nm', 'unlisted': True, 'hinted_file': True,
            'mutations': [{'op': 'NewModel', 'model': {
                'name': name, 'fields': [{'name': 'z', 'kind': 'Integer',
                                          'attrs': {'null': True}}],
                'meta': {}}}]}]}]
    return scn


def _phase(run):
    """Where the injected statement sits: inside a creating_models /
    applying_* bracket ('bracket'), after model creation outside any
    bracket ('deferred' SQL of new models), or elsewhere ('outside')."""
    depth = 0
    created = False
    for e in run.events:
        if e['t'] == 'sig':
            n = e['name']
            if n in ('creating_models', 'applying_evolution',
                     'applying_migration'):
                depth += 1
                created = created or n == 'creating_models'
            elif n in ('created_models', 'applied_evolution',
                       'applied_migration'):
                depth -= 1
        elif e['t'] == 'sql' and e.get('inj'):
            if depth > 0:
                return 'bracket'
            return 'deferred' if created else 'outside'
    return 'none'


def _faulted(ws, scn, sts, fault, pre, post_u, k, kind, scope, viols, stats,
             tags, u_status):
    ws.use_db('pre')
    r, _ = c01.run_upgrade(ws, scn, sts, fault=fault)
    inj = r.injected()
    if inj is None:
        stats['fault_not_reached'] = stats.get('fault_not_reached', 0) + 1
        return
    stats['fired_%s_%s' % (kind, scope)] = stats.get(
        'fired_%s_%s' % (kind, scope), 0) + 1
    detail = dict(k=k, fault=kind, scope=scope, statement=inj['sql'][:120],
                  ops=tags, mode=scn.get('mode'), phase=_phase(r),
                  alias=scn.get('alias', 'default'),
                  driver=scn.get('driver', 'command'))
    if kind == 'sql_error':
        if r.status == 'ok':
            viols.append(violation('C07.failure_swallowed', **detail))
        # error must identify the failing statement
        err = r.stderr() + ' ' + (r.exit or {}).get('msg', '')
        head = inj['sql'][:40]
        if scope == 'evo' and r.status == 'command_error' and \
                head not in err and repr(head)[1:-1] not in err:
            viols.append(violation('C07.error_lacks_statement',
                                   stderr=err[-300:], **detail))
        lock = (r.exit or {}).get('evolve_lock')
        if lock not in (None, 0):
            viols.append(violation('C07.lock_leak', lock=lock, **detail))
    mid = snapshot.snapshot(ws)
    diffs = common.state_equal(pre, mid)
    if diffs:
        book_only = all(d.get('table') in snapshot.BOOK for d in diffs)
        rule = ('C07.state_changed_after_failed_run' if scope == 'evo'
                else 'C07.bookkeeping_partial')
        viols.append(violation(
            rule, diffs=diffs[:6], book_only=book_only,
            temp_left='TEMP_TABLE' in mid['tables'],
            labels_changed=common.labels_of(pre) != common.labels_of(mid),
            sig_changed=pre['book'].get('django_project_version') !=
            mid['book'].get('django_project_version'),
            **detail))
    # fault-free retry from whatever state the failure left
    r2, _ = c01.run_upgrade(ws, scn, sts)
    if u_status == 'ok':
        if r2.status != 'ok':
            viols.append(violation(
                'C07.retry_failed', status=r2.status,
                msg=(r2.exit or {}).get('msg', '')[:200],
                clean_rollback=not diffs, **detail))
        else:
            end = snapshot.snapshot(ws)
            d2 = common.state_equal(post_u, end, ignore_when=True)
            if d2:
                viols.append(violation('C07.retry_differs', diffs=d2[:6],
                                       clean_rollback=not diffs, **detail))


def execute(scn):
    P = scn['project']
    sts = proj.states(P)
    stats = {}
    viols = []
    tags = common.op_tags(P)
    res = {'violations': viols, 'stats': stats, 'nontrivial': False,
           'shape': scenarios.shape_digest(scn) + scn.get('mode', ''),
           'runs': 0}
    alias = scn.get('alias', 'default')
    with runner.Workspace(databases=['default'] if alias == 'default'
                          else ['default', alias]) as ws:
        ws.main_alias = alias
        if alias != 'default':
            stats['non_default_database'] = 1
        if scn.get('driver') == 'api_nested':
            stats['api_inside_caller_transaction'] = 1
        r0 = common.install(ws, P, sts, 0, scn['rows'])
        if getattr(r0, 'rows_rejected', None):
            stats['rows_rejected'] = 1
            res['runs'] = ws.nruns
            return res
        if r0.status != 'ok':
            stats['install_failed'] = 1
            return res
        ws.fork_db('pre')
        pre = snapshot.snapshot(ws)
        u, _ = c01.run_upgrade(ws, scn, sts, scope='all')
        if getattr(u, 'placeholder', False) or common.rejected_before_sql(u):
            stats['rejected_before_sql'] = 1
            res['runs'] = ws.nruns
            return res
        post_u = snapshot.snapshot(ws)
        stats['u_' + u.status] = 1
        # fault points: every write statement after `evolving`
        n_evo = 0
        n_book = 0
        for e in u.events:
            if e['t'] == 'sql' and 'e' in e:
                if e.get('book'):
                    n_book += 1
                else:
                    n_evo += 1
        stats['programs_with_faults'] = 1 if (n_evo + n_book) else 0
        if any(s['name'] == 'creating_models' for s in u.signals()):
            stats['model_creation_in_batch'] = 1
        if common.rebuilt_tables(u):
            stats['rebuild_happened'] = 1
        crash_ks = set()
        if scn.get('crash_all'):
            crash_ks = set(range(n_evo))
        elif n_evo:
            crash_ks = {int(scn.get('crash_sample', 0) * n_evo) % n_evo}
        for k in range(n_evo):
            _faulted(ws, scn, sts,
                     {'kind': 'sql_error', 'k': k, 'scope': 'evo'},
                     pre, post_u, k, 'sql_error', 'evo', viols, stats, tags,
                     u.status)
            if k in crash_ks:
                _faulted(ws, scn, sts,
                         {'kind': 'crash', 'k': k, 'scope': 'evo'},
                         pre, post_u, k, 'crash', 'evo', viols, stats, tags,
                         u.status)
        for k in range(n_book):
            _faulted(ws, scn, sts,
                     {'kind': 'sql_error', 'k': k, 'scope': 'book'},
                     pre, post_u, k, 'sql_error', 'book', viols, stats, tags,
                     u.status)
            if scn.get('crash_all') or k == 0:
                _faulted(ws, scn, sts,
                         {'kind': 'crash', 'k': k, 'scope': 'book'},
                         pre, post_u, k, 'crash', 'book', viols, stats, tags,
                         u.status)
        res['runs'] = ws.nruns
        fired = sum(v for k2, v in stats.items() if k2.startswith('fired_'))
        stats['fault_points'] = fired
        res['nontrivial'] = fired > 0
        res['sample'] = {'ops': tags, 'mode': scn.get('mode'),
                         'fault_points_evo': n_evo, 'fault_points_book': n_book,
                         'uninterrupted': u.status,
                         'first_statements': [e['sql'][:70]
                                              for e in u.writes()[:4]]}
    return res


def shrinks(scn):
    return scenarios.shrink_single_step(scn)


def extra_evidence(stats):
    return {'fault_kinds_fired': {k: v for k, v in stats.items()
                                  if k.startswith('fired_')},
            'fault_points': stats.get('fault_points', 0)}
