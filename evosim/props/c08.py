"""C08 - each evolution is applied and recorded exactly once.

A generated operator script over one database: fresh install, partial
upgrades, no-op re-runs, API runs limited to selected apps, apps gaining
evolutions and models, two apps sharing evolution labels, wipe-evolution
followed by mark-evolution-applied, and faulted runs in between.  The
recorded history (signals + statements per run, django_evolution rows after
every run) is checked against a label model.
"""
import copy

from evosim import history, project as proj, rowmodel, runner, scenarios, \
    snapshot, spec
from evosim.engine import violation
from evosim.props import common, c03, c07

ID = 'C08'
LEVEL = 'exploration'
LEVEL_TEXT = ('seeded search over operator scripts (histories of runs with '
              'faults) against one database, every run a real process; the '
              'oracle is a label model over the recorded history')
TECHNIQUE = ('deterministic simulation of run histories with fault '
             'injection; exactly-once oracle over signals, statement traces '
             'and the django_evolution table after every run')
PLAN = {
    'quick': {'count': 300, 'max_wall': 170, 'shrink_budget': 20,
              'shrink_wall': 150},
    'thorough': {'count': 4000, 'max_wall': 1700, 'shrink_budget': 50,
                 'shrink_wall': 400},
}
RULE_TEXT = (
    'scenario = history V0..Vn of 1-3 apps (strict "simple" configuration '
    'in 60%) + operator script of 4-10 steps: deploy(next version) / run '
    '(command | api all | api selected apps | migrate) / rerun / faulted run '
    '(sql_error or crash at a seeded evolution statement, or at a '
    'bookkeeping write) / wipe+mark of a recorded label. Non-trivial = at '
    'least two runs executed evolution SQL or one faulted run fired; '
    'distinct = digest of the script shape.')
RULE_TEXT += ' Further script steps: wipe without re-marking; a final evolve --purge that drops one app while the other has pending evolutions; mark-evolution-applied --all.'
ASSUMPTIONS = [
    '"executed" = write statements inside an applying_evolution bracket of '
    'a run that completed; a failed run is rolled back (C07) and may '
    'legitimately be executed again',
    'after wipe-evolution the label is no longer recorded by the '
    "property's own wording; scripts re-mark it before the next upgrade",
]


def generate(seed, index, tier):
    rng = scenarios.derive_rng(seed, ID, index)
    simple = rng.random() < 0.6
    h = history.gen_history(rng, simple=simple,
                            two_apps=rng.random() < 0.6,
                            shared_labels=(rng.random() < 0.4) and (
                                'offset' if index % 2 else True),
                            nsteps=rng.choice([2, 3, 3, 4]))
    P = h['project']
    n = proj.n_versions(P) - 1
    purge_mode = 'vb' in P['apps'] and rng.random() < 0.25
    vmax = max(1, n - 1) if purge_mode else n
    script = []
    v = rng.choice([0, 0, 1]) if n > 1 else 0
    # an app that joins INSTALLED_APPS in a later release is installed
    # fresh on a database that already has recorded evolutions
    late_install = 'vb' in P['apps'] and not purge_mode and index % 4 == 1
    script.append({'do': 'deploy', 'v': v,
                   **({'apps': ['vb']} if late_install else {})})
    script.append({'do': 'run', 'driver': 'command'})
    if late_install and v < vmax:
        v = min(vmax, v + 1)
        script.append({'do': 'deploy', 'v': v, 'apps': ['vb']})
        script.append({'do': 'run', 'driver': 'command'})
    steps = rng.randint(3, 8)
    for _ in range(steps):
        r = rng.random()
        if r < 0.35 and v < vmax:
            v = min(vmax, v + rng.choice([1, 1, 2]))
            script.append({'do': 'deploy', 'v': v})
            script.append({'do': 'run', 'driver': rng.choice(
                ['command', 'command', 'api', 'migrate'])})
        elif r < 0.5:
            script.append({'do': 'run', 'driver': rng.choice(
                ['command', 'api'])})           # no-op rerun (usually)
        elif r < 0.65 and v < vmax:
            v = min(vmax, v + 1)
            script.append({'do': 'deploy', 'v': v})
            script.append({'do': 'run', 'driver': 'api',
                           'apps': [rng.choice(P['order'])]})
            script.append({'do': 'run', 'driver': 'command'})
        elif r < 0.85 and v < vmax:
            v = min(vmax, v + 1)
            script.append({'do': 'deploy', 'v': v})
            script.append({'do': 'run', 'driver': 'command', 'fault': {
                'kind': rng.choice(['sql_error', 'sql_error', 'crash']),
                'k': rng.randrange(0, 6),
                'scope': rng.choice(['evo', 'evo', 'evo', 'book'])}})
            script.append({'do': 'run', 'driver': 'command'})
        elif rng.random() < 0.5:
            script.append({'do': 'wipe_mark', 'pick': rng.random()})
        else:
            # wipe without re-marking: the label is no longer recorded, so
            # the next upgrade must record it again (exactly once), and
            # nothing else twice
            script.append({'do': 'wipe_only', 'pick': rng.random()})
            if v < vmax:
                v = min(vmax, v + 1)
                script.append({'do': 'deploy', 'v': v})
            script.append({'do': 'run', 'driver': 'command'})
    script.append({'do': 'run', 'driver': 'command'})
    # an app leaves INSTALLED_APPS and is purged in the same run in which
    # another app still has pending evolutions (two task classes in one
    # evolve())
    if purge_mode and v < n:
        pending_vb = [j for j in range(v, n)
                      if P['apps']['vb']['steps'][j]['evos']]
        if pending_vb:
            v2 = pending_vb[0] + 1
            script.append({'do': 'deploy', 'v': v2, 'apps': ['vb']})
            script.append({'do': 'run', 'driver': 'command', 'purge': True})
            script.append({'do': 'run', 'driver': 'command'})
    # interleaved `mark-evolution-applied --all` (refused when anything of
    # the app is already recorded; never records a label twice)
    if rng.random() < 0.3:
        if v < n and not purge_mode and rng.random() < 0.6:
            script.append({'do': 'deploy', 'v': min(n, v + 1)})
        script.append({'do': 'mark_all', 'pick': rng.random()})
    h['script'] = script
    return h


def executed_labels(run):
    """{(app, label)} whose bracket contains at least one write statement;
    plus the apps whose models were created in the run."""
    out = set()
    cur = None
    wrote = False
    created = set()
    for e in run.events:
        if e['t'] == 'sig':
            if e['name'] == 'applying_evolution':
                cur = (e['p']['app'], tuple(e['p'].get('labels') or []))
                wrote = False
            elif e['name'] == 'applied_evolution':
                if cur and wrote:
                    for l in cur[1]:
                        out.add((cur[0], l))
                cur = None
            elif e['name'] == 'creating_models':
                created.add(e['p']['app'])
        elif e['t'] == 'sql' and e['k'] == 'write' and cur is not None \
                and not e.get('inj'):
            wrote = True
    return out, created


def execute(scn):
    P = scn['project']
    sts = proj.states(P)
    stats, viols = {}, []
    res = {'violations': viols, 'stats': stats, 'nontrivial': False,
           'shape': spec.canon([[(s['do'], s.get('driver'),
                                  bool(s.get('apps')),
                                  (s.get('fault') or {}).get('kind'),
                                  (s.get('fault') or {}).get('scope'))
                                 for s in scn['script']],
                                len(P['order'])]), 'runs': 0}
    all_muts = history.mutations_between(P, 0, len(sts) - 1)
    feats = history.features(all_muts)
    detail0 = dict(simple=scn['simple'], **feats)
    executed_ok = {}       # (app, label) -> run index of successful execution
    failed_persisted = {}
    failed_phase = {}
    wiped_unmarked = set()
    failed_scopes, failed_scopes_next = set(), set()
    active = list(P['order'])
    rows_loaded = False
    cur_v = None
    n_exec_runs = 0
    fired = 0
    with runner.Workspace() as ws:
        prev = snapshot.snapshot(ws)
        run_idx = 0
        for si, step in enumerate(scn['script']):
            if step['do'] == 'deploy':
                proj.deploy(ws, P, step['v'], sts, apps=step.get('apps'),
                            clean=bool(step.get('apps')))
                cur_v = step['v']
                active = list(step.get('apps') or P['order'])
                continue
            if step['do'] == 'wipe_only':
                rows = prev['book'].get('django_evolution') or []
                mine = [r for r in rows if r[2] in P['order']]
                if not mine:
                    continue
                # prefer a label that is not the last one recorded
                pool = mine[:-1] or mine
                r = pool[int(step['pick'] * len(pool)) % len(pool)]
                ws.run('command', {'interactive': False,
                                   'app_label': r[2]},
                       command='wipe-evolution', pos=[r[3]])
                prev = snapshot.snapshot(ws)
                executed_ok.pop((r[2], r[3]), None)
                wiped_unmarked.add((r[2], r[3]))
                stats['wipe_only'] = stats.get('wipe_only', 0) + 1
                continue
            if step['do'] == 'mark_all':
                a = active[int(step['pick'] * len(active)) % len(active)]
                la = proj.label_of(P, a, cur_v)
                m = ws.run('command', {'interactive': False,
                                       'app_label': la, 'apply_all': True},
                           command='mark-evolution-applied', pos=[])
                snap = snapshot.snapshot(ws)
                pre_rows = prev['book'].get('django_evolution') or []
                post_rows = snap['book'].get('django_evolution') or []
                stats['mark_all'] = stats.get('mark_all', 0) + 1
                if any(x[2] == la for x in pre_rows):
                    stats['mark_all_with_recorded'] = 1
                det = dict(run=run_idx, step=si, driver='mark_all',
                           earlier_failed_scopes=sorted(failed_scopes),
                           status=m.status, faulted=False, fault_scope=None,
                           phase=None, **detail0)
                seen = set()
                pre_keys = [(x[2], x[3]) for x in pre_rows]
                post_keys = [(x[2], x[3]) for x in post_rows]
                for x in post_rows:
                    key = (x[2], x[3])
                    # (only duplicates this command added)
                    if key in seen and key[0] in P['order'] and \
                            post_keys.count(key) > pre_keys.count(key):
                        viols.append(violation('C08.recorded_twice',
                                               app=key[0], label=key[1],
                                               **det))
                    seen.add(key)
                gone = [x for x in pre_rows if x not in post_rows]
                if gone:
                    viols.append(violation(
                        'C08.record_removed',
                        rows=[list(x) for x in gone][:4], **det))
                if m.status != 'ok' and post_rows != pre_rows:
                    viols.append(violation(
                        'C08.recorded_by_failed_run',
                        rows=[list(x) for x in post_rows
                              if x not in pre_rows][:4], **det))
                prev = snap
                continue
            if step['do'] == 'wipe_mark':
                rows = prev['book'].get('django_evolution') or []
                mine = [r for r in rows if r[2] in P['order']]
                if not mine:
                    continue
                r = mine[int(step['pick'] * len(mine)) % len(mine)]
                app, label = r[2], r[3]
                w = ws.run('command', {'interactive': False,
                                       'app_label': app},
                           command='wipe-evolution', pos=[label])
                after_wipe = snapshot.snapshot(ws)
                if (app, label) in common.labels_of(after_wipe):
                    stats['wipe_noop'] = stats.get('wipe_noop', 0) + 1
                m = ws.run('command', {'interactive': False,
                                       'app_label': app},
                           command='mark-evolution-applied', pos=[label])
                prev = snapshot.snapshot(ws)
                stats['wipe_mark'] = stats.get('wipe_mark', 0) + 1
                if (app, label) not in common.labels_of(prev):
                    viols.append(violation(
                        'C08.mark_applied_not_recorded', app=app,
                        label=label, wipe=w.status, mark=m.status,
                        msg=((m.exit or {}).get('msg') or '')[:200],
                        **detail0))
                continue
            # a run
            kw = {}
            if step.get('fault'):
                kw['fault'] = step['fault']
            if step['driver'] == 'api' and step.get('apps'):
                labels = [proj.label_of(P, a, cur_v) for a in step['apps']]
                r = ws.run('api', {'apps': labels}, **kw)
            elif step.get('purge'):
                r = ws.run('evolve', {'execute': True, 'purge': True}, **kw)
                stats['purge_with_pending'] = 1
            else:
                r = history.upgrade(ws, step['driver'], **kw)
            run_idx += 1
            if cur_v is not None and not rows_loaded and r.status == 'ok':
                import sqlite3
                have = {x[1] for x in snapshot.snapshot(ws)['master']
                        if x[0] == 'table'}
                try:
                    rowmodel.load(ws.db_path(), {
                        t: v2 for t, v2 in
                        scn['rows_by_version'][cur_v].items() if t in have})
                except (sqlite3.IntegrityError, sqlite3.OperationalError):
                    stats['rows_rejected'] = 1
                rows_loaded = True
            snap = snapshot.snapshot(ws)
            pre_rows = prev['book'].get('django_evolution') or []
            post_rows = snap['book'].get('django_evolution') or []
            pre_set = {(x[2], x[3]) for x in pre_rows}
            new_rows = [x for x in post_rows if x not in pre_rows]
            gone_rows = [x for x in pre_rows if x not in post_rows]
            ex, created = executed_labels(r)
            inj = r.injected()
            if inj is not None:
                fired += 1
                stats['fired_%s_%s' % (step['fault']['kind'],
                                       step['fault']['scope'])] = 1
                failed_scopes_next.add(step['fault']['scope'])
            detail = dict(run=run_idx, step=si, driver=step['driver'],
                          earlier_failed_scopes=sorted(failed_scopes),
                          status=r.status, faulted=inj is not None,
                          fault_scope=(step.get('fault') or {}).get('scope')
                          if inj is not None else None,
                          phase=c07._phase(r) if inj is not None else None,
                          **detail0)
            ok = r.status == 'ok'
            # duplicates
            seen = {}
            for x in post_rows:
                key = (x[2], x[3])
                if key in seen and key[0] in P['order']:
                    viols.append(violation('C08.recorded_twice',
                                           app=key[0], label=key[1],
                                           **detail))
                seen[key] = x
            if gone_rows:
                viols.append(violation('C08.record_removed',
                                       rows=[list(x) for x in gone_rows][:4],
                                       **detail))
            if not ok and ex:
                # a failed run whose evolution SQL nevertheless persisted
                # counts as an execution (C07 says it must not persist)
                changed = [d for d in common.state_equal(prev, snap)
                           if d.get('table') not in snapshot.BOOK
                           and d.get('table') != 'django_content_type']
                if changed:
                    for key in sorted(ex):
                        executed_ok.setdefault(key, run_idx)
                        failed_persisted[key] = (
                            step.get('fault') or {}).get('scope')
                        failed_phase[key] = c07._phase(r)
            if not ok and new_rows:
                viols.append(violation(
                    'C08.recorded_by_failed_run',
                    rows=[list(x) for x in new_rows][:4], **detail))
            if ok:
                vers_pre = {x[0] for x in
                            prev['book'].get('django_project_version') or []}
                vers_new = [x[0] for x in
                            snap['book'].get('django_project_version') or []
                            if x[0] not in vers_pre]
                for x in new_rows:
                    if not vers_new or x[1] != vers_new[-1]:
                        viols.append(violation(
                            'C08.recorded_wrong_version', row=list(x),
                            new_versions=vers_new, **detail))
                post_set = {(x[2], x[3]) for x in post_rows}
                for key in sorted(ex):
                    if key in pre_set:
                        viols.append(violation('C08.reexecuted_recorded',
                                               app=key[0], label=key[1],
                                               **detail))
                    if key not in post_set:
                        viols.append(violation('C08.executed_not_recorded',
                                               app=key[0], label=key[1],
                                               **detail))
                    if key in executed_ok:
                        viols.append(violation(
                            'C08.executed_twice', app=key[0], label=key[1],
                            first_run=executed_ok[key],
                            first_failed_scope=failed_persisted.get(key),
                            first_failed_phase=failed_phase.get(key),
                            **detail))
                    executed_ok[key] = run_idx
                if ex:
                    n_exec_runs += 1
                # fresh install of an app: whole sequence recorded, none of
                # it executed
                for a in active:
                    la = proj.label_of(P, a, cur_v)
                    was_known = la in (c03.stored_apps(prev) or {})
                    if la in created and not was_known:
                        seq = proj.sequence_at(P, a, cur_v)
                        for l in seq:
                            if (la, l) in ex:
                                viols.append(violation(
                                    'C08.fresh_executed_evolution_sql',
                                    app=la, label=l, **detail))
                            if (la, l) not in post_set:
                                viols.append(violation(
                                    'C08.fresh_sequence_not_recorded',
                                    app=la, label=l, **detail))
            prev = snap
            failed_scopes |= failed_scopes_next
        res['runs'] = ws.nruns
    res['nontrivial'] = n_exec_runs >= 2 or fired > 0
    if scn['simple']:
        stats['simple_history'] = 1
    if len(P['order']) > 1:
        stats['multi_app'] = 1
    if any(s2.get('apps') == ['vb'] and i2 == 0
           for i2, s2 in enumerate(scn['script'])):
        stats['late_install'] = 1
    stats['runs_executing_evolutions'] = n_exec_runs
    res['sample'] = {'script': [
        {k: v for k, v in s.items() if k != 'pick'} for s in scn['script']],
        'apps': P['order']}
    return res


def shrinks(scn):
    # drop script steps (keep the first deploy+run)
    for i in range(len(scn['script']) - 1, 1, -1):
        c = copy.deepcopy(scn)
        del c['script'][i]
        yield c
    for i, s in enumerate(scn['script']):
        if s.get('fault'):
            c = copy.deepcopy(scn)
            c['script'][i].pop('fault')
            yield c
        if s.get('driver') not in (None, 'command') and not s.get('apps'):
            c = copy.deepcopy(scn)
            c['script'][i]['driver'] = 'command'
            yield c
    if any(any(v.values()) for v in scn['rows_by_version']):
        c = copy.deepcopy(scn)
        c['rows_by_version'] = [{t: [] for t in rv}
                                for rv in c['rows_by_version']]
        yield c
