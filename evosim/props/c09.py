"""C09 - execution order respects every evolution/migration dependency.

(a) ordering core: seeded random digraphs (<= 7 nodes; cycles, self loops,
    removed dependencies) given to DependencyGraph in a seeded random
    insertion order of nodes and edges, inside one child process.
(b) project level: 2-4 generated apps with pending evolutions and new
    models, random AFTER_/BEFORE_EVOLUTIONS at evolution and app level
    written into the generated files, random subsets applied by an earlier
    run, sometimes a deliberate cycle; the order of creating_models /
    applying_evolution signals of the real upgrade run is checked against a
    unit-order model computed from the scenario alone.
"""
import copy

from evosim import project as proj, runner, scenarios, snapshot, spec
from evosim.engine import violation
from evosim.props import common

ID = 'C09'
LEVEL = 'exploration'
LEVEL_TEXT = ('seeded sampling of dependency configurations: random digraphs '
              'and insertion orders for the ordering core, generated '
              'multi-app projects for the evolver; the exhaustive <=5-node '
              'enumeration of the quantifier is sampled, not enumerated')
TECHNIQUE = ('deterministic simulation: insertion order / INSTALLED_APPS '
             'order / applied-subset history as the schedule, signal trace '
             'of the real run vs an independent unit-order model')
PLAN = {
    'quick': {'count': 600, 'max_wall': 170, 'shrink_budget': 25,
              'shrink_wall': 100},
    'thorough': {'count': 6000, 'max_wall': 1500, 'shrink_budget': 60,
                 'shrink_wall': 300},
}
RULE_TEXT = (
    'scenario kinds: "graph" (one child evaluates 150 seeded digraphs: '
    'evaluations counts scenarios, counters.graphs counts graphs) and '
    '"project" (2-4 apps x 0-2 pending evolutions + optional new model, '
    'random deps, random pre-applied subset, 20% deliberate cycles) and '
    '"migdep" (evolutions, incl. the one handing an app over to migrations, '
    'declaring AFTER_/BEFORE_MIGRATIONS on pending migrations of a '
    'migrations-only app). '
    'Non-trivial = graph scenario, or project whose run had >= 2 units and '
    '>= 1 declared dependency in force; distinct = digest of the dependency '
    'configuration.')
ASSUMPTIONS = [
    'bracket granularity: labels of one app merged in one applying_evolution '
    'bracket are ordered by their position in the payload list',
]

APPS = ['va', 'vb', 'vc', 'vd']


def generate(seed, index, tier):
    rng = scenarios.derive_rng(seed, ID, index)
    if index % 4 == 0:
        return {'kind': 'graph', 'gseed': rng.randrange(1 << 30),
                'count': 150}
    if index % 4 == 2 and rng.random() < 0.6:
        return _gen_migdep(rng)
    napps = rng.choice([2, 3, 3, 4])
    apps = APPS[:napps]
    order = apps[:]
    rng.shuffle(order)
    project = {'apps': {}, 'order': order, 'databases': ['default']}
    units = {}
    for a in apps:
        v0 = [{'name': 'Item', 'fields': [
            {'name': 'a', 'kind': 'Integer', 'attrs': {'null': True}}],
            'meta': {}}]
        steps = [{'evos': []}, {'evos': []}]
        nevo = rng.choice([0, 1, 1, 2, 2])
        labels = []
        for i in range(nevo):
            label = '%s_%sx%d' % (a, 'zyxw'[i], i + 1)
            mut = {'op': 'AddField', 'model': 'Item', 'field': {
                'name': 'f%d' % (i + 1), 'kind': 'Integer',
                'attrs': {'null': True}}}
            # the first evolution may be applied by the earlier run
            s = 0 if (i == 0 and rng.random() < 0.35) else 1
            steps[s]['evos'].append({'label': label, 'mutations': [mut],
                                     'deps': {}})
            labels.append((label, s))
        if rng.random() < 0.3:
            steps[1]['evos'].append({'label': '%s_nm' % a, 'mutations': [
                {'op': 'NewModel', 'model': {'name': 'Part', 'fields': [
                    {'name': 'b', 'kind': 'Integer',
                     'attrs': {'null': True}}], 'meta': {}}}],
                'deps': {}, 'model_only': True})
        project['apps'][a] = {'v0': v0, 'steps': steps}
        units[a] = labels
    # a NewModel pseudo-evolution is not an evolution file: move the model
    # into the step's target instead
    for a in apps:
        for step in project['apps'][a]['steps']:
            keep = []
            for evo in step['evos']:
                if evo.get('model_only'):
                    step.setdefault('new_models', []).append(
                        evo['mutations'][0]['model'])
                else:
                    keep.append(evo)
            step['evos'] = keep
    # dependencies
    all_evos = [(a, l) for a in apps for (l, s) in units[a]]
    ndeps = rng.choice([0, 1, 1, 2, 3])
    cyc = rng.random() < 0.2
    for _ in range(ndeps):
        a = rng.choice(apps)
        others = [x for x in apps if x != a]
        b = rng.choice(others)
        kind = rng.choice(['AFTER_EVOLUTIONS', 'BEFORE_EVOLUTIONS'])
        target_evos = [l for (l, s) in units[b]]
        if target_evos and rng.random() < 0.6:
            target = [b, rng.choice(target_evos)]
        else:
            target = b
        mine = [e for st in project['apps'][a]['steps'] for e in st['evos']]
        if mine and rng.random() < 0.7:
            evo = rng.choice(mine)
            evo['deps'].setdefault(kind, []).append(target)
        else:
            st = project['apps'][a]['steps'][1]
            st.setdefault('app_deps', {}).setdefault(kind, []).append(target)
    if cyc and len(apps) >= 2:
        a, b = rng.sample(apps, 2)
        for x, y in ((a, b), (b, a)):
            st = project['apps'][x]['steps'][1]
            st.setdefault('app_deps', {}).setdefault(
                'AFTER_EVOLUTIONS', []).append(y)
    return {'kind': 'project', 'project': project, 'cycle_added': cyc}


def _gen_migdep(rng):
    """Evolutions that declare ordering against *migrations* of another
    app: vc is a migrations-only app whose 0002 is pending; va's evolution
    (plain, or the one that hands va over to migrations) and optionally
    vb's declare AFTER_/BEFORE_MIGRATIONS on it, per evolution or per app."""
    intf = lambda n: {'name': n, 'kind': 'Integer', 'attrs': {'null': True}}
    vc0 = {'name': 'Node', 'fields': [intf('n')], 'meta': {}}
    vc1 = copy.deepcopy(vc0)
    vc1['fields'].append(intf('m'))
    vc_files = {
        '0001_initial': {'from': 0, 'text': spec.render_migration(
            [], [{'op': 'CreateModel', 'model': vc0}], initial=True)},
        '0002_add_m': {'from': 1, 'text': spec.render_migration(
            [['vc', '0001_initial']],
            [{'op': 'AddField', 'model': 'Node', 'field': intf('m'),
              'default': False}])}}
    two = rng.random() < 0.5
    if two:
        vc2 = copy.deepcopy(vc1)
        vc2['fields'].append(intf('o'))
        vc_files['0003_add_o'] = {'from': 1, 'text': spec.render_migration(
            [['vc', '0002_add_m']],
            [{'op': 'AddField', 'model': 'Node', 'field': intf('o'),
              'default': False}])}
    project = {'apps': {'vc': {
        'v0': [vc0], 'steps': [{'evos': [],
                                'target': [vc2 if two else vc1]}],
        'no_evolutions_pkg': True, 'migrations': {'files': vc_files}}},
        'order': ['vc'], 'databases': ['default']}
    targets = ['0002_add_m'] + (['0003_add_o'] if two else [])
    expect = []           # (kind, app, label, migration)
    apps = ['va'] + (['vb'] if rng.random() < 0.5 else [])
    for a in apps:
        base = {'name': 'Item', 'fields': [intf('a')], 'meta': {}}
        move = a == 'va' and rng.random() < 0.6
        kind = rng.choice(['AFTER_MIGRATIONS', 'AFTER_MIGRATIONS',
                           'BEFORE_MIGRATIONS'])
        tgt = rng.choice(targets)
        per_app = rng.random() < 0.3
        app = {'v0': [base]}
        t = copy.deepcopy(base)
        t['fields'].append(intf('f1'))
        target = [t]
        add = {'op': 'AddField', 'model': 'Item', 'field': intf('f1')}
        if move:
            # the hand-over evolution also changes the schema, so that it
            # is bracketed by applying_/applied_evolution
            evo = {'label': a + '_move', 'mutations': [
                add, {'op': 'MoveToDjangoMigrations',
                      'mark_applied': ['0001_initial']}], 'deps': {}}
            app['migrations'] = {'files': {'0001_initial': {
                'from': 1, 'text': spec.render_migration(
                    [], [{'op': 'CreateModel', 'model': t}],
                    initial=True)}}}
        else:
            evo = {'label': a + '_x1', 'mutations': [add], 'deps': {}}
        if not move and rng.random() < 0.4:
            # two pending evolutions of one app on either side of the
            # migration; the first one lowers to no SQL at all (a rename
            # that keeps its column), so its batch has nothing to execute
            if rng.random() < 0.5:
                ren = {'op': 'RenameField', 'model': 'Item', 'old': 'a',
                       'new': 'a2', 'db_column': 'a'}
                t['fields'][0] = {'name': 'a2', 'kind': 'Integer',
                                  'attrs': {'null': True, 'db_column': 'a'}}
            else:
                # ... or is filtered out altogether: it adds a field to a
                # model that is itself new in this release
                ren = {'op': 'AddField', 'model': 'Part',
                       'field': intf('p1')}
                target.append({'name': 'Part', 'fields': [
                    intf('b'), intf('p1')], 'meta': {}})
            e0 = {'label': a + '_w0', 'mutations': [ren],
                  'deps': {'BEFORE_MIGRATIONS': [['vc', tgt]]}}
            evo['deps']['AFTER_MIGRATIONS'] = [['vc', tgt]]
            app['steps'] = [{'evos': [e0, evo], 'target': target}]
            project['apps'][a] = app
            expect.append(['AFTER_MIGRATIONS', a, evo['label'], tgt])
            continue
        step = {'evos': [evo], 'target': target}
        if per_app:
            step['app_deps'] = {kind: [['vc', tgt]]}
        else:
            evo['deps'][kind] = [['vc', tgt]]
        app['steps'] = [step]
        project['apps'][a] = app
        expect.append([kind, a, evo['label'], tgt])
    order = list(project['apps'])
    rng.shuffle(order)
    project['order'] = order
    return {'kind': 'migdep', 'project': project, 'expect': expect}


def _exec_migdep(scn, res, stats, viols):
    P = scn['project']
    sts = proj.states(P)
    with runner.Workspace() as ws:
        proj.deploy(ws, P, 0, sts)
        r0 = ws.run('evolve', {'execute': True})
        if r0.status != 'ok':
            raise runner.HarnessError('migdep install failed: %s' % (
                (r0.exit or {}).get('msg'),))
        proj.deploy(ws, P, 1, sts, clean=True)
        r = ws.run('evolve', {'execute': True})
        res['runs'] = ws.nruns
    res['nontrivial'] = True
    res['shape'] = spec.canon(['migdep', P['order'], scn['expect'],
                               sorted(P['apps']['vc']['migrations'][
                                   'files'])])
    stats['migration_dep_scenarios'] = 1
    detail = dict(kind='migdep', order=P['order'], expect=scn['expect'])
    if r.status != 'ok':
        viols.append(violation(
            'C09.satisfiable_rejected', status=r.status,
            msg=((r.exit or {}).get('msg') or '')[:300], **detail))
        return res
    seq = []
    for s in r.signals():
        if s['name'] in ('applying_evolution', 'applied_evolution'):
            for l in s['p'].get('labels') or []:
                seq.append((s['name'], s['p']['app'], l))
        elif s['name'] in ('applying_migration', 'applied_migration'):
            seq.append((s['name'],) + tuple(s['p']['migration']))
    detail['observed'] = [list(x) for x in seq]
    for kind, a, label, mig in scn['expect']:
        evo_start = ('applying_evolution', a, label)
        evo_end = ('applied_evolution', a, label)
        mig_start = ('applying_migration', 'vc', mig)
        mig_end = ('applied_migration', 'vc', mig)
        missing = [list(x) for x in (evo_start, evo_end, mig_start, mig_end)
                   if seq.count(x) != 1]
        if missing:
            viols.append(violation(
                'C09.unit_twice' if seq.count(tuple(missing[0])) > 1
                else 'C09.unit_missing', unit=missing[0], **detail))
            continue
        if kind == 'AFTER_MIGRATIONS':
            ok = seq.index(mig_end) < seq.index(evo_start)
        else:
            ok = seq.index(evo_end) < seq.index(mig_start)
        if kind == 'AFTER_MIGRATIONS':
            stats['after_pending_migration'] = 1
            # statement level: nothing touches the app's table before the
            # migration it must follow has been applied
            early = None
            for e in r.events:
                if e['t'] == 'sig' and e['name'] == 'applied_migration' \
                        and tuple(e['p']['migration']) == ('vc', mig):
                    break
                if e['t'] == 'sql' and e['k'] == 'write' and \
                        not e.get('book') and '"%s_item"' % a in e['sql']:
                    early = e['sql'][:100]
                    break
            if early:
                ok = False
                detail['early_statement'] = early
        if not ok:
            viols.append(violation(
                'C09.migration_precedence_violated', dep=kind,
                evolution=[a, label], migration=['vc', mig],
                moves_to_migrations=label.endswith('_move'), **detail))
    res['sample'] = {'kind': 'migdep', 'order': P['order'],
                     'expect': scn['expect'],
                     'observed': detail['observed'][:8]}
    return res


def _render_new_models(project):
    """Fold 'new_models' of steps into NewModel pseudo-mutations carried by
    an unlisted, file-less evolution so that project.states() sees them."""
    P = copy.deepcopy(project)
    for a in P['apps']:
        for step in P['apps'][a]['steps']:
            for m in step.pop('new_models', []):
                step['evos'].append({'label': '_nm', 'unlisted': True,
                                     'hinted_file': True,
                                     'mutations': [{'op': 'NewModel',
                                                    'model': m}]})
    return P


def precedence(project, applied):
    """(units, edges): units pending at the final run and the precedence
    pairs (x before y) in force among them, from the scenario alone."""
    P = project
    units = []
    per_app = {}
    for a in P['order']:
        lst = []
        for si, step in enumerate(P['apps'][a]['steps']):
            if step.get('new_models') and si == 1:
                lst.append(('create', a, None))
            for evo in step['evos']:
                if (a, evo['label']) not in applied:
                    lst.append(('evo', a, evo['label']))
        per_app[a] = lst
        units += lst
    edges = set()
    for a, lst in per_app.items():
        for x, y in zip(lst, lst[1:]):
            edges.add((x, y))
    uset = set(units)

    def targets(t, first):
        if isinstance(t, list):
            u = ('evo', t[0], t[1])
            return [u] if u in uset else []
        lst = per_app.get(t, [])
        return list(lst)

    for a in P['order']:
        for si, step in enumerate(P['apps'][a]['steps']):
            mine_all = per_app[a]
            for kind, tl in (step.get('app_deps') or {}).items():
                for t in tl:
                    for tu in targets(t, kind.startswith('BEFORE')):
                        for mu in mine_all:
                            if kind == 'AFTER_EVOLUTIONS':
                                edges.add((tu, mu))
                            elif kind == 'BEFORE_EVOLUTIONS':
                                edges.add((mu, tu))
            for evo in step['evos']:
                mu = ('evo', a, evo['label'])
                if mu not in uset:
                    continue
                for kind, tl in (evo.get('deps') or {}).items():
                    for t in tl:
                        for tu in targets(t, kind.startswith('BEFORE')):
                            if kind == 'AFTER_EVOLUTIONS':
                                edges.add((tu, mu))
                            elif kind == 'BEFORE_EVOLUTIONS':
                                edges.add((mu, tu))
    edges = {(x, y) for (x, y) in edges if x != y}
    return units, edges


def is_cyclic(units, edges):
    adj = {}
    for x, y in edges:
        adj.setdefault(x, set()).add(y)
    color = {}

    def cyc(u):
        color[u] = 1
        for v in adj.get(u, ()):
            if color.get(v) == 1 or (color.get(v) is None and cyc(v)):
                return True
        color[u] = 2
        return False
    return any(color.get(u) is None and cyc(u) for u in units)


def observed_units(run):
    out = []
    for s in run.signals():
        if s['name'] == 'creating_models':
            out.append(('create', s['p']['app'], None))
        elif s['name'] == 'applying_evolution':
            for l in s['p'].get('labels') or []:
                out.append(('evo', s['p']['app'], l))
    return out


def execute(scn):
    stats, viols = {}, []
    res = {'violations': viols, 'stats': stats, 'nontrivial': False,
           'shape': None, 'runs': 0}
    if scn['kind'] == 'graph':
        with runner.Workspace() as ws:
            ws.installed_apps = []
            r = ws.run('graph_sample', {'gseed': scn['gseed'],
                                        'count': scn['count']})
            res['runs'] = 1
            p = r.probe('graph') or {}
            if r.status != 'ok' or not p:
                raise runner.HarnessError('graph sampler failed: %s %s' % (
                    r.status, (r.exit or {}).get('msg')))
            for v in p['violations']:
                viols.append(violation(v['rule'], kind='graph',
                                       **v['detail']))
            for k, n in p['stats'].items():
                stats[k] = n
        res['nontrivial'] = True
        res['shape'] = 'graph:%d' % scn['gseed']
        res['sample'] = {'kind': 'graph', 'gseed': scn['gseed'],
                         'graphs': scn['count']}
        return res
    if scn['kind'] == 'migdep':
        return _exec_migdep(scn, res, stats, viols)
    P0 = scn['project']
    P = _render_new_models(P0)
    sts = proj.states(P)
    with runner.Workspace() as ws:
        proj.deploy(ws, P, 0, sts)
        r0 = ws.run('evolve', {'execute': True})
        if r0.status != 'ok':
            stats['install_failed'] = 1
            res['runs'] = ws.nruns
            return res
        # earlier run applies the step-0 evolutions (deps of step 1 are not
        # deployed yet)
        P1 = copy.deepcopy(P)
        for a in P1['apps']:
            P1['apps'][a]['steps'][0].pop('app_deps', None)
        proj.deploy(ws, P1, 1, proj.states(P1))
        r1 = ws.run('evolve', {'execute': True})
        snap1 = snapshot.snapshot(ws)
        applied = set(common.labels_of(snap1))
        proj.deploy(ws, P, 2, sts)
        pre = snapshot.snapshot(ws)
        r = ws.run('evolve', {'execute': True})
        post = snapshot.snapshot(ws)
        res['runs'] = ws.nruns
    units, edges = precedence(P0, applied)
    cyclic = is_cyclic(units, edges)
    detail = dict(kind='project', order=P0['order'],
                  units=[list(u) for u in units],
                  edges=sorted([[list(x), list(y)] for x, y in edges]),
                  applied=sorted([list(x) for x in applied
                                  if x[0] in P0['apps']]))
    ndeps = sum(len(v) for a in P0['apps'] for st in P0['apps'][a]['steps']
                for v in list((st.get('app_deps') or {}).values()) +
                [x for e in st['evos']
                 for x in (e.get('deps') or {}).values()])
    res['shape'] = spec.canon([detail['order'], detail['edges'],
                               detail['applied']])
    stats['project_scenarios'] = 1
    if cyclic:
        stats['cycle_generated'] = 1
        res['nontrivial'] = True
        if r.status == 'ok':
            viols.append(violation('C09.unsatisfiable_not_reported',
                                   observed=[list(u)
                                             for u in observed_units(r)],
                                   **detail))
        elif r.writes():
            viols.append(violation('C09.unsatisfiable_wrote',
                                   first=r.writes()[0]['sql'][:100],
                                   **detail))
        elif common.state_equal(pre, post):
            viols.append(violation('C09.unsatisfiable_changed_state',
                                   **detail))
        res['sample'] = {'kind': 'project', 'cyclic': True,
                         'status': r.status,
                         'msg': ((r.exit or {}).get('msg') or '')[:120]}
        return res
    if r.status != 'ok':
        viols.append(violation(
            'C09.satisfiable_rejected', status=r.status,
            msg=((r.exit or {}).get('msg') or '')[:300], **detail))
        return res
    obs = observed_units(r)
    if len(units) >= 2 and ndeps:
        res['nontrivial'] = True
    if any(x in applied for x in
           [(t[0], t[1]) for a in P0['apps']
            for st in P0['apps'][a]['steps'] for e in st['evos']
            for tl in (e.get('deps') or {}).values() for t in tl
            if isinstance(t, list)]):
        stats['dep_on_applied_unit'] = 1
    for u in units:
        n = obs.count(u)
        if n == 0:
            viols.append(violation('C09.unit_missing', unit=list(u),
                                   observed=[list(x) for x in obs],
                                   **detail))
        elif n > 1:
            viols.append(violation('C09.unit_twice', unit=list(u),
                                   observed=[list(x) for x in obs],
                                   **detail))
    for u in obs:
        if u not in units:
            viols.append(violation('C09.unit_unexpected', unit=list(u),
                                   observed=[list(x) for x in obs],
                                   **detail))
    pos = {}
    for i, u in enumerate(obs):
        pos.setdefault(u, i)
    for x, y in sorted(edges):
        if x in pos and y in pos and pos[x] > pos[y]:
            first_evo = {}
            for u in units:
                if u[0] == 'evo':
                    first_evo.setdefault(u[1], u)
            viols.append(violation('C09.precedence_violated',
                                   after_is_create=y[0] == 'create',
                                   after_grouped_with_earlier=(
                                       y[0] == 'evo'
                                       and first_evo.get(y[1]) != y),
                                   before=list(x), after=list(y),
                                   observed=[list(u) for u in obs],
                                   **detail))
    res['sample'] = {'kind': 'project', 'order': P0['order'],
                     'units': len(units), 'edges': len(edges),
                     'observed': [list(u) for u in obs][:8]}
    return res


def shrinks(scn):
    if scn['kind'] == 'migdep':
        # drop one app with its expectation
        for a in ('vb', 'va'):
            if a in scn['project']['apps'] and len(scn['expect']) > 1:
                c = copy.deepcopy(scn)
                del c['project']['apps'][a]
                c['project']['order'].remove(a)
                c['expect'] = [e for e in c['expect'] if e[1] != a]
                yield c
        return
    if scn['kind'] != 'project':
        if scn.get('count', 0) > 10:
            c = copy.deepcopy(scn)
            c['count'] = max(10, scn['count'] // 2)
            yield c
        return
    P = scn['project']
    # drop one declared dependency
    for a in sorted(P['apps']):
        for si, st in enumerate(P['apps'][a]['steps']):
            for kind in sorted(st.get('app_deps') or {}):
                for i in range(len(st['app_deps'][kind])):
                    c = copy.deepcopy(scn)
                    del c['project']['apps'][a]['steps'][si]['app_deps'][
                        kind][i]
                    yield c
            for ei, evo in enumerate(st['evos']):
                for kind in sorted(evo.get('deps') or {}):
                    for i in range(len(evo['deps'][kind])):
                        c = copy.deepcopy(scn)
                        del c['project']['apps'][a]['steps'][si]['evos'][ei][
                            'deps'][kind][i]
                        yield c
    # drop an app nobody depends on
    named = set()
    for a in P['apps']:
        for st in P['apps'][a]['steps']:
            for tl in list((st.get('app_deps') or {}).values()) + [
                    x for e in st['evos']
                    for x in (e.get('deps') or {}).values()]:
                for t in tl:
                    named.add(t[0] if isinstance(t, list) else t)
    for a in sorted(P['apps']):
        if a not in named and len(P['apps']) > 2:
            c = copy.deepcopy(scn)
            del c['project']['apps'][a]
            c['project']['order'] = [x for x in c['project']['order']
                                     if x != a]
            yield c
    # drop new models
    for a in sorted(P['apps']):
        for si, st in enumerate(P['apps'][a]['steps']):
            if st.get('new_models'):
                c = copy.deepcopy(scn)
                c['project']['apps'][a]['steps'][si].pop('new_models')
                yield c
