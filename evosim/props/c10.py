"""C10 - handing an app over to Django migrations is clean and one-way.

A generated app has k evolutions, then an evolution with
MoveToDjangoMigrations(mark_applied=S) and a real migrations/ package
rendered from the same specs (a chain mirroring the evolutions, or a squashed
0001_initial, plus 0-2 further migrations, plus optionally one more migration
in a later version).  Databases start empty, at any earlier evolution, or
already on migrations; next to the app there may be an evolution-only and a
migration-only app.  Every run is a real process; optionally the evolution
batch before the move is hit by an injected failure first.
"""
import copy

from evosim import project as proj, rowmodel, runner, scenarios, snapshot, \
    spec
from evosim.engine import violation
from evosim.props import common, c03, c07

ID = 'C10'
LEVEL = 'exploration'
LEVEL_TEXT = ('seeded search over hand-over configurations (number of '
              'evolutions, covered prefix, remaining migrations, start '
              'state, neighbours, fault), each executed by real processes '
              'against a real database with rendered migration files')
TECHNIQUE = ('deterministic simulation of the upgrade history across the '
             'evolutions -> migrations boundary: rendered migrations/, one '
             'process per run, signal + statement trace, django_migrations '
             'and stored signature read with sqlite3, sql_error@k + retry')
PLAN = {
    'quick': {'count': 400, 'max_wall': 170, 'shrink_budget': 20,
              'shrink_wall': 100},
    'thorough': {'count': 5000, 'max_wall': 1500, 'shrink_budget': 50,
                 'shrink_wall': 300},
}
RULE_TEXT = (
    'scenario = (k in 0..2 evolutions) x (chain style mirror | squashed) x '
    '(0-2 remaining migrations) x (extra migration in a later version) x '
    '(start: virgin database | database at evolution s | already on '
    'migrations) x (evolution-only neighbour, migration-only neighbour) x '
    '(fault: none | sql_error at a seeded statement then retry). '
    'Non-trivial = the run crossed the hand-over (MoveToDjangoMigrations '
    'pending) or ran on an app already moved; distinct = digest of the '
    'configuration tuple.')
RULE_TEXT += ' 30% of the histories carry a second evolution-era model that a remaining migration deletes.'
RULE_TEXT += ' 1 in 25: the handed-over app has an AppConfig label different from its module name.'
ASSUMPTIONS = [
    'on a virgin database the tables can only come from the migrations '
    'themselves, so "without being executed" is judged only when the '
    "app's tables pre-exist",
    'migrations are rendered from the same specs as the models, so '
    'the covered prefix creates exactly the schema the evolutions produce',
]


def _field(name, rng, kind=None):
    kind = kind or rng.choice(['Integer', 'Char', 'BigInteger'])
    attrs = {}
    if kind == 'Char':
        attrs['max_length'] = 20
    if kind != 'Boolean':
        attrs['null'] = True
    return {'name': name, 'kind': kind, 'attrs': attrs}


def _gen_custom_label(rng):
    """The handed-over app has an AppConfig label that differs from its
    module name (package va, label store): everything recorded for it -
    django_migrations rows, stored signature - goes by the label."""
    base = {'name': 'Item', 'fields': [_field('a', rng, 'Integer')],
            'meta': {}}
    g = _field('g1', rng, 'Integer')
    final = copy.deepcopy(base)
    final['fields'].append(copy.deepcopy(g))
    files = {
        '0001_initial': {'from': 1, 'text': spec.render_migration(
            [], [{'op': 'CreateModel', 'model': base}], initial=True)},
        '0002_add_g1': {'from': 1, 'text': spec.render_migration(
            [['store', '0001_initial']],
            [{'op': 'AddField', 'model': 'Item', 'field': g,
              'default': False}])}}
    project = {'apps': {'va': {
        'v0': [base], 'labels': ['store', 'store'],
        'steps': [{'evos': [{'label': 'move', 'mutations': [
            {'op': 'MoveToDjangoMigrations',
             'mark_applied': ['0001_initial']}]}], 'target': [final]}],
        'migrations': {'files': files}}},
        'order': ['va'], 'databases': ['default']}
    return {'kind': 'custom_label', 'project': project,
            'virgin': rng.random() < 0.3}


def _exec_custom_label(scn):
    P = scn['project']
    sts = proj.states(P)
    stats, viols = {'custom_label': 1}, []
    detail = dict(kind='custom_label', virgin=scn['virgin'])
    res = {'violations': viols, 'stats': stats, 'nontrivial': True,
           'shape': spec.canon(['custom_label', scn['virgin']]), 'runs': 0}
    with runner.Workspace() as ws:
        if not scn['virgin']:
            proj.deploy(ws, P, 0, sts)
            r0 = ws.run('evolve', {'execute': True})
            if r0.status != 'ok':
                raise runner.HarnessError('custom_label install: %s' % (
                    (r0.exit or {}).get('msg'),))
        proj.deploy(ws, P, 1, sts, clean=True)
        r = ws.run('evolve', {'execute': True})
        post = snapshot.snapshot(ws)
        if r.status != 'ok':
            viols.append(violation(
                'C10.upgrade_failed', status=r.status,
                msg=((r.exit or {}).get('msg') or '')[:300], **detail))
            res['runs'] = ws.nruns
            return res
        names = sorted(x[2] for x in (post['book'].get('django_migrations')
                                      or []) if x[1] == 'store')
        if names != ['0001_initial', '0002_add_g1']:
            viols.append(violation('C10.marked_recorded_count',
                                   migration='*', count=len(names),
                                   table=names, **detail))
        sig = (c03.stored_apps(post) or {}).get('store') or {}
        if sig.get('upgrade_method') != 'migrations':
            viols.append(violation('C10.not_moved', upgrade_method=sig.get(
                'upgrade_method'), **detail))
        if sorted(set(sig.get('applied_migrations') or [])) != names:
            viols.append(violation('C10.sig_migrations_mismatch',
                                   sig=sig.get('applied_migrations'),
                                   table=names, **detail))
        if 'g1' not in (post['tables'].get('store_item') or {}).get(
                'columns', {}):
            viols.append(violation('C10.remaining_not_executed',
                                   want=['0002_add_g1'], executed=[],
                                   **detail))
        r2 = ws.run('evolve', {'execute': True})
        if r2.status != 'ok' or r2.writes():
            viols.append(violation('C10.rerun_not_noop', status=r2.status,
                                   out=(r2.stdout() + r2.stderr())[-200:],
                                   writes=len(r2.writes()), **detail))
        res['runs'] = ws.nruns
        res['sample'] = dict(detail)
    return res


def generate(seed, index, tier):
    rng = scenarios.derive_rng(seed, ID, index)
    if index % 25 == 24:
        return _gen_custom_label(rng)
    k = rng.choice([0, 1, 1, 2])
    remaining = rng.choice([0, 1, 1, 2])
    style = rng.choice(['mirror', 'squash'])
    extra = rng.random() < 0.4
    base = {'name': 'Item', 'fields': [_field('a', rng, 'Integer')],
            'meta': {}}
    if rng.random() < 0.3:
        base['meta']['db_table'] = 'hand_t'
    # a second model from the evolution era that one of the remaining
    # migrations deletes after the hand-over
    doomed = None
    if rng.random() < 0.3:
        doomed = {'name': 'Extra', 'fields': [_field('x', rng, 'Integer')],
                  'meta': {}}
    also = [doomed] if doomed else []
    versions = [copy.deepcopy([base] + also)]
    steps = []
    cur = copy.deepcopy(base)
    evo_fields = []
    for i in range(k):
        f = _field('f%d' % (i + 1), rng)
        mut = {'op': 'AddField', 'model': 'Item', 'field': f}
        if not f['attrs'].get('null'):
            mut['initial'] = False
        cur['fields'].append(copy.deepcopy(f))
        evo_fields.append(f)
        steps.append({'evos': [{'label': spec.evo_label(i),
                                'mutations': [mut]}],
                      'target': copy.deepcopy([cur] + also)})
    move_version = k + 1
    # migration chain
    files = {}
    names = []
    if style == 'mirror':
        files['0001_initial'] = {'from': move_version, 'text':
                                 spec.render_migration(
                                     [], [{'op': 'CreateModel',
                                           'model': mm}
                                          for mm in [base] + also],
                                     initial=True)}
        names.append('0001_initial')
        for i, f in enumerate(evo_fields):
            n = '%04d_add_%s' % (i + 2, f['name'])
            files[n] = {'from': move_version, 'text': spec.render_migration(
                [['va', names[-1]]],
                [{'op': 'AddField', 'model': 'Item', 'field': f,
                  'default': False}])}
            names.append(n)
    else:
        files['0001_initial'] = {'from': move_version, 'text':
                                 spec.render_migration(
                                     [], [{'op': 'CreateModel',
                                           'model': mm} for mm in
                                          [copy.deepcopy(cur)] + also],
                                     initial=True)}
        names.append('0001_initial')
    covered = list(names)
    # the empty prefix: nothing is covered, every migration has to run (the
    # initial one is soft-applied by Django when its tables exist)
    empty_cover = (style == 'squash' or k == 0) and index % 7 == 6
    if empty_cover:
        covered = []
    rem_fields = []
    for j in range(remaining):
        f = _field('g%d' % (j + 1), rng)
        n = '%04d_add_%s' % (len(names) + 1, f['name'])
        files[n] = {'from': move_version, 'text': spec.render_migration(
            [['va', names[-1]]],
            [{'op': 'AddField', 'model': 'Item', 'field': f,
              'default': False}])}
        names.append(n)
        cur['fields'].append(copy.deepcopy(f))
        rem_fields.append(f)
    if doomed:
        n = '%04d_delete_extra' % (len(names) + 1)
        files[n] = {'from': move_version, 'text': spec.render_migration(
            [['va', names[-1]]], [{'op': 'DeleteModel', 'name': 'Extra'}])}
        names.append(n)
    steps.append({'evos': [{'label': 'move', 'mutations': [
        {'op': 'MoveToDjangoMigrations', 'mark_applied': covered}]}],
        'target': copy.deepcopy([cur])})
    final_version = move_version
    if extra:
        f = _field('h1', rng)
        n = '%04d_add_%s' % (len(names) + 1, f['name'])
        files[n] = {'from': move_version + 1, 'text': spec.render_migration(
            [['va', names[-1]]],
            [{'op': 'AddField', 'model': 'Item', 'field': f,
              'default': False}])}
        names.append(n)
        cur['fields'].append(copy.deepcopy(f))
        steps.append({'evos': [], 'target': copy.deepcopy([cur])})
        final_version = move_version + 1
    project = {'apps': {'va': {'v0': [base] + also, 'steps': steps,
                               'migrations': {'files': files}}},
               'order': ['va'], 'databases': ['default']}
    nsteps = len(steps)
    # neighbours
    if rng.random() < 0.4:
        vb0 = {'name': 'Part', 'fields': [_field('p', rng, 'Integer')],
               'meta': {}}
        vsteps = [{'evos': []} for _ in range(nsteps)]
        at = rng.randrange(0, nsteps)
        f = _field('q', rng, 'Integer')
        vb1 = copy.deepcopy(vb0)
        vb1['fields'].append(f)
        vsteps[at] = {'evos': [{'label': 'vb_e1', 'mutations': [
            {'op': 'AddField', 'model': 'Part', 'field': f}]}]}
        project['apps']['vb'] = {'v0': [vb0], 'steps': vsteps}
        project['order'].append('vb')
    if rng.random() < 0.3:
        vc0 = {'name': 'Node', 'fields': [_field('n', rng, 'Integer')],
               'meta': {}}
        project['apps']['vc'] = {
            'v0': [vc0], 'steps': [{'evos': []} for _ in range(nsteps)],
            'no_evolutions_pkg': True,
            'migrations': {'files': {'0001_initial': {
                'from': 0, 'text': spec.render_migration(
                    [], [{'op': 'CreateModel', 'model': vc0}],
                    initial=True)}}}}
        project['order'].insert(rng.randrange(0, len(project['order']) + 1),
                                'vc')
    starts = ['virgin'] + list(range(0, k + 1))
    if extra:
        starts.append(move_version)
    start = rng.choice(starts)
    scn = {'project': project, 'k': k, 'style': style,
           'remaining': remaining, 'extra': extra,
           'move_version': move_version, 'final_version': final_version,
           'covered': covered, 'chain': names, 'start': start,
           'doomed_model': bool(doomed),
           'hashseed': rng.choice([0, 0, 1])}
    if rng.random() < 0.25 and start != 'virgin':
        scn['fault'] = {'kind': 'sql_error', 'k': rng.randrange(0, 6),
                        'scope': 'evo'}
    return scn


def va_migration_rows(snap):
    return [r for r in (snap['book'].get('django_migrations') or [])
            if r[1] == 'va']


def execute(scn):
    if scn.get('kind') == 'custom_label':
        return _exec_custom_label(scn)
    P = scn['project']
    sts = proj.states(P)
    stats, viols = {}, []
    final = scn['final_version']
    start = scn['start']
    chain_final = [n for n in scn['chain']
                   if P['apps']['va']['migrations']['files'][n]['from']
                   <= final]
    detail = dict(k=scn['k'], style=scn['style'],
                  remaining=scn['remaining'], extra=scn['extra'],
                  start=start, apps=P['order'],
                  doomed_model=bool(scn.get('doomed_model')),
                  empty_cover=not scn['covered'],
                  faulted=bool(scn.get('fault')))
    res = {'violations': viols, 'stats': stats, 'nontrivial': True,
           'shape': spec.canon([scn['k'], scn['style'], scn['remaining'],
                                scn['extra'], start, P['order'],
                                bool(scn.get('fault'))]), 'runs': 0}
    with runner.Workspace() as ws:
        pre_tables_exist = start != 'virgin'
        if start != 'virgin':
            proj.deploy(ws, P, start, sts)
            r0 = ws.run('evolve', {'execute': True})
            if r0.status != 'ok':
                viols.append(violation(
                    'C10.install_failed', status=r0.status,
                    msg=((r0.exit or {}).get('msg') or '')[:300], **detail))
                res['runs'] = ws.nruns
                return res
            t = spec.table_name('va', sts[start]['apps']['va']['models'][0])
            rowmodel.load(ws.db_path(), {t: [{'id': 1}, {'id': 2}]})
        pre = snapshot.snapshot(ws)
        pre_recorded = set(common.labels_of(pre))
        pre_mig = {(r[1], r[2]) for r in
                   (pre['book'].get('django_migrations') or [])}
        proj.deploy(ws, P, final, sts, clean=True)
        if scn.get('fault'):
            f = ws.run('evolve', {'execute': True}, fault=scn['fault'],
                       hashseed=scn.get('hashseed', 0))
            inj = f.injected()
            if inj is not None:
                stats['fired_sql_error'] = 1
                detail['fault_phase'] = c07._phase(f)
                where = None
                for e in f.events:
                    if e['t'] == 'sig' and e['name'] in (
                            'applying_evolution', 'applying_migration',
                            'creating_models'):
                        where = e['name']
                    elif e['t'] == 'sig' and e['name'] in (
                            'applied_evolution', 'applied_migration',
                            'created_models'):
                        where = None
                    elif e['t'] == 'sql' and e.get('inj'):
                        break
                detail['fault_in'] = where
                detail['fault_statement'] = inj['sql'][:80]
        r = ws.run('evolve', {'execute': True},
                   hashseed=scn.get('hashseed', 0))
        post = snapshot.snapshot(ws)
        if r.status != 'ok':
            viols.append(violation(
                'C10.upgrade_failed', status=r.status,
                msg=((r.exit or {}).get('msg') or '')[:300], **detail))
            res['runs'] = ws.nruns
            return res
        # ---- order: evolutions of va before its migrations ---------------
        # (a migration that Django soft-applies - its tables exist, nothing
        # is executed - in the pre-evolution stage does not count: only the
        # empty mark_applied prefix produces that)
        seq = []
        open_mig = None
        for e in r.events:
            if e['t'] == 'sig':
                s = e
                if s['name'] == 'applying_evolution' and \
                        s['p']['app'] == 'va':
                    seq.append(('evo', tuple(s['p'].get('labels') or [])))
                elif s['name'] == 'applying_migration' and \
                        s['p']['migration'][0] == 'va':
                    open_mig = ['mig', s['p']['migration'][1], False]
                elif s['name'] == 'applied_migration' and open_mig:
                    if open_mig[2]:
                        seq.append(('mig', open_mig[1]))
                    else:
                        stats['soft_applied_migration'] = 1
                    open_mig = None
            elif e['t'] == 'sql' and e['k'] == 'write' and open_mig and \
                    not e.get('book') and not e.get('inj'):
                open_mig[2] = True
        seen_mig = False
        for kind, what in seq:
            if kind == 'mig':
                seen_mig = True
            elif seen_mig:
                viols.append(violation('C10.evolution_after_migration',
                                       sequence=[list(map(str, x))
                                                 for x in seq], **detail))
                break
        # ---- which migrations were executed (bracket containing writes) ---
        def brackets_of(run):
            out = []
            cur = None
            wrote = False
            for e in run.events:
                if e['t'] == 'sig' and e['name'] == 'applying_migration' \
                        and e['p']['migration'][0] == 'va':
                    cur = e['p']['migration'][1]
                    wrote = False
                elif e['t'] == 'sig' and e['name'] == 'applied_migration' \
                        and cur is not None:
                    out.append((cur, wrote))
                    cur = None
                elif e['t'] == 'sql' and e['k'] == 'write' and \
                        cur is not None and not e.get('book') and \
                        not e.get('inj'):
                    wrote = True
            return out
        brackets = brackets_of(r)
        announced = [m for (m, w) in brackets]
        if scn.get('fault') and 'f' in locals():
            announced = [m for (m, w) in brackets_of(f)] + announced
        executed = [m for (m, w) in brackets if w]
        if scn.get('fault') and 'f' in locals():
            # migrations completed by the faulted run stay applied (Django
            # commits each migration on its own): count them as executed
            executed = [m for (m, w) in brackets_of(f) if w] + executed
        extra_name = scn['chain'][-1] if scn.get('extra') else None
        expect_version = final
        if extra_name and extra_name not in executed:
            # A migration added after the hand-over is outside C10's
            # statement.  (Observation, see DESIGN: an upgrade run does not
            # notice new migrations of an app that is already on migrations
            # unless something else makes an upgrade necessary.)
            stats['later_migration_not_applied'] = 1
            chain_final = [m for m in chain_final if m != extra_name]
            expect_version = scn['move_version']
        already_moved = any(m for (a, m) in pre_mig if a == 'va')
        if already_moved:
            covered = sorted(m for (a, m) in pre_mig if a == 'va')
        else:
            covered = list(scn['covered'])
        if pre_tables_exist:
            for m in covered:
                if m in executed:
                    viols.append(violation('C10.marked_executed',
                                           migration=m, executed=executed,
                                           **detail))
            want_exec = [m for m in chain_final if m not in covered]
            if not scn['covered'] and not already_moved:
                # soft-applied: announced and recorded, nothing to write
                want_exec = [m for m in want_exec if m != '0001_initial']
                stats['empty_cover'] = 1
            for m in chain_final:
                if m not in covered and m not in announced:
                    viols.append(violation('C10.uncovered_not_announced',
                                           migration=m, announced=announced,
                                           **detail))
        else:
            want_exec = None
        rows = va_migration_rows(post)
        names = [x[2] for x in rows]
        for m in chain_final:
            if names.count(m) != 1:
                viols.append(violation('C10.marked_recorded_count',
                                       migration=m, count=names.count(m),
                                       virgin=not pre_tables_exist,
                                       **detail))
        for m in names:
            if m not in chain_final:
                viols.append(violation('C10.unknown_migration_recorded',
                                       migration=m, **detail))
        if want_exec is not None:
            if [m for m in executed if m in want_exec] != want_exec:
                viols.append(violation('C10.remaining_not_executed',
                                       want=want_exec, executed=executed,
                                       **detail))
        # chain order of the brackets
        order = [m for (m, w) in brackets]
        idx = [chain_final.index(m) for m in order if m in chain_final]
        dedup = []
        for i in idx:
            if not dedup or dedup[-1] != i:
                dedup.append(i)
        if dedup != sorted(dedup):
            viols.append(violation('C10.migration_order', order=order,
                                   **detail))
        if len(order) != len(set(order)):
            stats['migration_bracket_twice'] = 1
        # ---- stored signature lists exactly the recorded migrations -------
        apps = c03.stored_apps(post) or {}
        sig_va = apps.get('va') or {}
        if sig_va.get('upgrade_method') != 'migrations':
            viols.append(violation('C10.not_moved',
                                   upgrade_method=sig_va.get(
                                       'upgrade_method'), **detail))
        if sorted(set(sig_va.get('applied_migrations') or [])) != \
                sorted(set(names)):
            viols.append(violation(
                'C10.sig_migrations_mismatch',
                sig=sig_va.get('applied_migrations'), table=names,
                **detail))
        # ---- final schema = fresh schema ------------------------------------
        fresh, _ = common.fresh_snapshot(P, sts, expect_version)
        for dd in common.schema_diffs(post, fresh, sts[expect_version],
                                      sorted(sts[expect_version]['apps'])):
            viols.append(violation('C10.schema', table=dd['table'],
                                   kind=dd['kind'], what=dd['what'],
                                   **detail))
        if pre_tables_exist:
            t = spec.table_name('va', sts[final]['apps']['va']['models'][0])
            if t in post['tables'] and len(post['tables'][t]['rows']) != 2:
                viols.append(violation('C10.rows_lost', table=t,
                                       count=len(post['tables'][t]['rows']),
                                       **detail))
        # ---- from then on: no evolution SQL / hints, rerun is a no-op -------
        if expect_version != final:
            proj.deploy(ws, P, expect_version, sts, clean=True)
        r2 = ws.run('evolve', {'execute': True})
        if r2.status != 'ok' or 'No database upgrade required' not in \
                r2.stdout() or r2.writes():
            viols.append(violation(
                'C10.rerun_not_noop', status=r2.status,
                out=(r2.stdout() + r2.stderr())[-200:],
                writes=len(r2.writes()), **detail))
        h = ws.run('evolve', {'hint': True})
        if 'Evolution for va' in h.stdout():
            viols.append(violation('C10.hint_after_move',
                                   out=h.stdout()[-300:], **detail))
        for s in r2.signals():
            if s['name'] == 'applying_evolution' and s['p']['app'] == 'va':
                viols.append(violation('C10.evolution_sql_after_move',
                                       **detail))
        # labels: every evolution of va recorded exactly once
        labs = [x for x in common.labels_of(post) if x[0] == 'va']
        for step in P['apps']['va']['steps'][:final]:
            for evo in step['evos']:
                if labs.count(('va', evo['label'])) != 1:
                    viols.append(violation(
                        'C10.evolution_label_count', label=evo['label'],
                        count=labs.count(('va', evo['label'])), **detail))
        res['runs'] = ws.nruns + 1
        stats['start_' + str(start if start == 'virgin' else 'db')] = 1
        if already_moved:
            stats['already_on_migrations'] = 1
        if 'vb' in P['apps']:
            stats['with_evolution_only_app'] = 1
        if 'vc' in P['apps']:
            stats['with_migration_only_app'] = 1
        if scn.get('doomed_model'):
            stats['model_deleted_by_later_migration'] = 1
        dup_ct = [x for x in (post['book'].get('django_migrations') or [])
                  if x[1] == 'contenttypes']
        if len(dup_ct) != len({x[2] for x in dup_ct}):
            stats['contenttypes_migration_recorded_twice'] = 1
        res['sample'] = {'k': scn['k'], 'style': scn['style'],
                         'covered': covered, 'chain': chain_final,
                         'start': start, 'executed': executed,
                         'apps': P['order']}
    return res


def shrinks(scn):
    if scn.get('kind') == 'custom_label':
        return
    P = scn['project']
    if scn.get('fault'):
        c = copy.deepcopy(scn)
        c.pop('fault')
        yield c
    for a in ('vb', 'vc'):
        if a in P['apps']:
            c = copy.deepcopy(scn)
            del c['project']['apps'][a]
            c['project']['order'] = [x for x in c['project']['order']
                                     if x != a]
            yield c
    if scn.get('hashseed'):
        c = copy.deepcopy(scn)
        c['hashseed'] = 0
        yield c
