"""C11 - renames and deletions keep every cross-reference consistent.

Projects with cross-model / cross-app ForeignKey, OneToOne and ManyToMany
relations; evolutions with RenameModel, RenameAppLabel, RenameField,
DeleteField, DeleteModel.  (i) a child simulates the evolution one mutation
at a time on the stored signature and walks the project signature after each
mutation; (ii) the real upgrade runs and the stored signature and the
database (foreign_key_list targets, foreign_key_check with rows) are
inspected from outside.
"""
import copy
import json

from evosim import gen, project as proj, rowmodel, runner, scenarios, \
    snapshot, spec
from evosim.engine import violation
from evosim.props import common, c03

ID = 'C11'
LEVEL = 'exploration'
LEVEL_TEXT = ('seeded search over generated related-model projects and '
              'rename/delete sequences; signature walk after each simulated '
              'mutation (in a child) and database foreign-key inspection '
              'after the real run')
TECHNIQUE = ('deterministic simulation: real-process upgrade + in-child '
             'per-mutation simulation probe, sqlite3 PRAGMA '
             'foreign_key_list / foreign_key_check observation')
PLAN = {
    'quick': {'count': 800, 'max_wall': 170, 'shrink_budget': 25,
              'shrink_wall': 120},
    'thorough': {'count': 8000, 'max_wall': 1500, 'shrink_budget': 60,
                 'shrink_wall': 300},
}
RULE_TEXT = (
    'scenario kinds: "models" (two apps with relations in both directions, '
    'self relations, M2M; 1-4 mutations drawn from RenameModel (same / new '
    'table), RenameField, DeleteField, DeleteModel, AddField) and '
    '"app_label" (an app changes its label via AppConfig + RenameAppLabel '
    'while another app points at its models). Non-trivial = the evolution '
    'contains a rename/delete and a relation points at or from the touched '
    'model; distinct = mutation kinds + relation topology digest.')
RULE_TEXT += ' Half of the app_label scenarios have a bystander app whose label starts with the renamed label; kind "pk_rename" (1 in 16): a primary key that models of both apps point at is renamed and the referencing tables are rebuilt afterwards, stepwise or in one run.'
RULE_TEXT += ' Kind "label_reuse" (1 in 16): a label freed by one RenameAppLabel is taken by the other app in the next release.'
ASSUMPTIONS = [
    'a relation to an explicitly deleted model may dangle (the property '
    'exempts it); the generator deletes referrers first',
    'RenameModel on models involved in M2M keeps the through table columns: '
    'compared with the fresh schema that is C01 territory, here only '
    'reference validity is judged',
]

OPS = {'RenameModel': 5, 'RenameField': 3, 'DeleteField': 2,
       'DeleteModel': 2, 'AddField': 2, 'ChangeField': 0, 'ChangeMeta': 0,
       'NewModel': 0, 'SQLMutation': 0}


def generate(seed, index, tier):
    rng = scenarios.derive_rng(seed, ID, index)
    if index % 4 == 0:
        return gen_app_label(rng)
    if index % 16 == 5:
        return gen_pk_rename(rng)
    if index % 16 == 13:
        return gen_label_reuse(rng)
    cfg = gen.swarm_config(rng)
    cfg['relations'] = True
    cfg['m2m'] = rng.random() < 0.5
    cfg['meta'] = []
    cfg['kinds'] = ['Char', 'Integer', 'Boolean']
    cfg['plain_fields'] = rng.random() < 0.6
    cfg['max_models'] = rng.choice([2, 2, 3])
    cfg['ops'] = dict(OPS)
    cfg['rename_model_with_m2m'] = rng.random() < 0.4
    cfg['max_rows'] = rng.choice([2, 3])
    cfg['db_table'] = rng.random() < 0.3
    scn = scenarios.single_step(rng, cfg=cfg, two_apps=True)
    scn['kind'] = 'models'
    scn['mutate_vb'] = False
    return scn


def gen_app_label(rng):
    cfg = gen.default_config()
    cfg['relations'] = True
    cfg['m2m'] = rng.random() < 0.4
    cfg['meta'] = []
    cfg['kinds'] = ['Char', 'Integer']
    cfg['plain_fields'] = True
    cfg['max_models'] = 2
    cfg['max_rows'] = 2
    cfg['db_table'] = False
    g = gen.Gen(rng, cfg)
    # va first so that vb can point at va; plus relations inside va
    # half of the projects have a bystander app whose label merely starts
    # with the renamed label ('vax' vs 'va'); references to it must stay
    third = rng.random() < 0.5
    st = g.gen_state(['va', 'vax', 'vb'] if third else ['va', 'vb'])
    # make sure vb points at va
    va_models = st['apps']['va']['models']
    target = 'va.%s' % va_models[0]['name']
    m = st['apps']['vb']['models'][0]
    if not any(f.get('to', '').startswith('va.') for mm in
               st['apps']['vb']['models'] for f in mm['fields']):
        m['fields'].append({'name': 'xref', 'kind': 'ForeignKey',
                            'attrs': {'null': True}, 'to': target})
    if third and not any(f.get('to', '').startswith('vax.') for mm in
                         st['apps']['vb']['models'] for f in mm['fields']):
        m['fields'].append({'name': 'yref', 'kind': 'ForeignKey',
                            'attrs': {'null': True}, 'to': 'vax.%s' % (
                                st['apps']['vax']['models'][0]['name'],)})
    rows = g.gen_rows(st)
    mut = {'op': 'RenameAppLabel', 'old': 'va', 'new': 'newa',
           'legacy': 'va'}
    project = {
        'apps': {
            'va': {'v0': st['apps']['va']['models'],
                   'steps': [{'evos': [{'label': 'relabel',
                                        'mutations': [mut]}]}],
                   'labels': ['va', 'newa']},
            'vb': {'v0': st['apps']['vb']['models'], 'steps': [
                {'evos': []}]},
        },
        'order': rng.choice([['va', 'vb'], ['vb', 'va']]),
        'databases': ['default'],
    }
    if third:
        project['apps']['vax'] = {'v0': st['apps']['vax']['models'],
                                  'steps': [{'evos': []}]}
        project['order'].insert(rng.randrange(0, 3), 'vax')
    return {'kind': 'app_label', 'project': project, 'rows': rows}


def gen_pk_rename(rng):
    """A primary key that other models (same app and another app) point at
    is renamed; afterwards the referencing tables are rebuilt by unrelated
    changes, in the same run or a later one."""
    intf = lambda n: {'name': n, 'kind': 'Integer', 'attrs': {'null': True}}
    char = lambda n, l: {'name': n, 'kind': 'Char', 'attrs': {'max_length': l}}
    fk = lambda n, to: {'name': n, 'kind': rng.choice(
        ['ForeignKey', 'ForeignKey', 'OneToOne']), 'attrs': {'null': True},
        'to': to}
    author0 = {'name': 'Author', 'fields': [char('name', 20)], 'meta': {}}
    book0 = {'name': 'Book', 'fields': [fk('author', 'va.Author'),
                                        char('title', 20)], 'meta': {}}
    # declaration order decides the order of the rebuilds in one run
    va0 = [author0, book0] if rng.random() < 0.5 else [book0, author0]
    keep_column = rng.random() < 0.3
    pk = {'name': 'author_id', 'kind': 'Auto', 'attrs': {'primary_key': True}}
    ren = {'op': 'RenameField', 'model': 'Author', 'old': 'id',
           'new': 'author_id'}
    if keep_column:
        pk['attrs']['db_column'] = 'id'
        ren['db_column'] = 'id'
    va1 = copy.deepcopy(va0)
    a1 = [m for m in va1 if m['name'] == 'Author'][0]
    a1['fields'].insert(0, pk)
    va2 = copy.deepcopy(va1)
    b2 = [m for m in va2 if m['name'] == 'Book'][0]
    if rng.random() < 0.5:
        b2['fields'][1]['attrs']['max_length'] = 50
        m2 = {'op': 'ChangeField', 'model': 'Book', 'name': 'title',
              'attrs': {'max_length': 50}}
    else:
        b2['fields'].append(intf('pages'))
        m2 = {'op': 'AddField', 'model': 'Book', 'field': intf('pages')}
    raw_sql = rng.random() < 0.35
    first = [ren]
    if raw_sql:
        # a raw SQL mutation without update_func: the app can no longer be
        # simulated, its other mutations still have to be tracked
        first = [{'op': 'SQLMutation', 'tag': 'raw_1', 'raw': True, 'sql': [
            'UPDATE "django_content_type" SET "model" = "model" '
            'WHERE 1 = 0 -- raw_1']}, ren]
    project = {'apps': {'va': {'v0': va0, 'steps': [
        {'evos': [{'label': 'rename_pk', 'mutations': first}],
         'target': va1},
        {'evos': [{'label': 'touch_book', 'mutations': [m2]}],
         'target': va2}]}},
        'order': ['va'], 'databases': ['default']}
    rows = {'va_author': [{'id': 1, 'name': 'x'}, {'id': 2, 'name': 'y'}],
            'va_book': [{'id': 1, 'author_id': 2, 'title': 't'}]}
    if rng.random() < 0.6:
        l0 = {'name': 'Listing', 'fields': [fk('seller', 'va.Author'),
                                            intf('price')], 'meta': {}}
        l2 = copy.deepcopy(l0)
        l2['fields'].append(intf('note'))
        project['apps']['vb'] = {'v0': [l0], 'steps': [
            {'evos': []},
            {'evos': [{'label': 'touch_listing', 'mutations': [
                {'op': 'AddField', 'model': 'Listing',
                 'field': intf('note')}]}], 'target': [l2]}]}
        project['order'] = rng.choice([['va', 'vb'], ['vb', 'va']])
        rows['vb_listing'] = [{'id': 1, 'seller_id': 1, 'price': None}]
    return {'kind': 'pk_rename', 'project': project, 'rows': rows,
            'path': rng.choice(['stepwise', 'direct']),
            'keep_column': keep_column, 'raw_sql': raw_sql}


def gen_label_reuse(rng):
    """An app label is freed by one rename and taken by another app in the
    next release: va -> newa (legacy label va), then vb -> va.  Lookups by
    app id must prefer the app that really has that id over one that merely
    had it once."""
    intf = lambda n: {'name': n, 'kind': 'Integer', 'attrs': {'null': True}}
    same_name = rng.random() < 0.6
    va0 = [{'name': 'Item', 'fields': [intf('a')], 'meta': {}}]
    vb0 = [{'name': 'Item' if same_name else 'Node', 'fields': [
        intf('n'), {'name': 'link', 'kind': 'ForeignKey',
                    'attrs': {'null': True}, 'to': 'va.Item'}], 'meta': {}}]
    vbname = vb0[0]['name']
    # (a further mutation of the relabelled app in the same release is not
    # generated: the unchanged tree cannot resolve it - observation, see
    # DESIGN 8.2)
    project = {'apps': {
        'va': {'v0': va0, 'labels': ['va', 'newa', 'newa'], 'steps': [
            {'evos': [{'label': 'relabel_a', 'mutations': [
                {'op': 'RenameAppLabel', 'old': 'va', 'new': 'newa',
                 'legacy': 'va'}]}]}, {'evos': []}]},
        'vb': {'v0': vb0, 'labels': ['vb', 'vb', 'va'], 'steps': [
            {'evos': []},
            {'evos': [{'label': 'relabel_b', 'mutations': [
                {'op': 'RenameAppLabel', 'old': 'vb', 'new': 'va',
                 'legacy': 'vb'}]}]}]}},
        'order': rng.choice([['va', 'vb'], ['vb', 'va']]),
        'databases': ['default']}
    return {'kind': 'label_reuse', 'project': project,
            'rows': {'va_item': [{'id': 1, 'a': 1}]}}


def _exec_label_reuse(scn):
    P = scn['project']
    sts = proj.states(P)
    stats, viols = {'kind_label_reuse': 1}, []
    tags = ['RenameAppLabel', 'RenameAppLabel']
    detail = dict(kind='label_reuse', order=P['order'], ops=tags,
                  ops_str=' '.join(tags), model_name_reuse=False,
                  renamed_name_in_other_app=False)
    res = {'violations': viols, 'stats': stats, 'nontrivial': True,
           'shape': spec.canon(['label_reuse', P['order'], tags,
                                P['apps']['vb']['v0'][0]['name']]),
           'runs': 0}
    with runner.Workspace() as ws:
        r0 = common.install(ws, P, sts, 0, scn['rows'])
        if r0.status != 'ok' or getattr(r0, 'rows_rejected', None):
            raise runner.HarnessError('label_reuse install: %s' % r0.status)
        for v in (1, 2):
            proj.deploy(ws, P, v, sts, clean=True)
            r = ws.run('evolve', {'execute': True})
            if r.status != 'ok':
                viols.append(violation(
                    'C11.valid_rename_rejected', version=v,
                    out=(r.stdout() + r.stderr() + str(
                        (r.exit or {}).get('msg')))[-400:], **detail))
                res['runs'] = ws.nruns
                return res
        post = snapshot.snapshot(ws)
        res['runs'] = ws.nruns
    apps = c03.stored_apps(post) or {}
    for want in ('newa', 'va'):
        if want not in apps:
            viols.append(violation('C11.dangling_related_model',
                                   when='stored', missing_app=want,
                                   apps=sorted(apps), **detail))
    for a, asig in apps.items():
        for mn, msig in (asig.get('models') or {}).items():
            for fn, fsig in (msig.get('fields') or {}).items():
                rel = fsig.get('related_model')
                if not rel:
                    continue
                ra, rm = rel.split('.', 1)
                if ra not in apps or rm not in (
                        apps[ra].get('models') or {}):
                    viols.append(violation(
                        'C11.dangling_related_model', when='stored',
                        refs=[[a, mn, fn, rel]], **detail))
                elif fn == 'link' and rel != 'newa.Item':
                    viols.append(violation(
                        'C11.dangling_related_model', when='stored',
                        wrong_target=[[a, mn, fn, rel]], **detail))
    for t, ts in post['tables'].items():
        for (col, rt, rc) in ts['fks']:
            if rt not in post['tables']:
                viols.append(violation('C11.fk_target_missing', table=t,
                                       column=col, target=rt, **detail))
    if post['fk_check']:
        viols.append(violation('C11.fk_check', rows=[
            list(map(str, x)) for x in post['fk_check'][:4]], **detail))
    res['sample'] = dict(detail)
    return res


def _exec_pk_rename(scn):
    P = scn['project']
    sts = proj.states(P)
    stats, viols = {'kind_pk_rename': 1}, []
    detail = dict(kind='pk_rename', path=scn['path'],
                  keep_column=scn['keep_column'], order=P['order'],
                  raw_sql=bool(scn.get('raw_sql')),
                  ops=['RenameField:pk'], ops_str='RenameField:pk',
                  model_name_reuse=False, renamed_name_in_other_app=False)
    res = {'violations': viols, 'stats': stats, 'nontrivial': True,
           'shape': spec.canon(['pk_rename', scn['path'], P['order'],
                                scn['keep_column'],
                                [m['name'] for m in P['apps']['va']['v0']],
                                [f['kind'] for a in sorted(P['apps'])
                                 for m in P['apps'][a]['v0']
                                 for f in m['fields']]]), 'runs': 0}
    with runner.Workspace() as ws:
        r0 = common.install(ws, P, sts, 0, scn['rows'])
        if r0.status != 'ok' or getattr(r0, 'rows_rejected', None):
            raise runner.HarnessError('pk_rename install: %s %s' % (
                r0.status, getattr(r0, 'rows_rejected', None)))
        for v in ([1, 2] if scn['path'] == 'stepwise' else [2]):
            proj.deploy(ws, P, v, sts, clean=True)
            r = ws.run('evolve', {'execute': True})
            if r.status != 'ok':
                viols.append(violation(
                    'C11.valid_rename_rejected', version=v,
                    out=(r.stdout() + r.stderr() + str(
                        (r.exit or {}).get('msg')))[-400:], **detail))
                res['runs'] = ws.nruns
                return res
        post = snapshot.snapshot(ws)
        res['runs'] = ws.nruns
    for t, ts in post['tables'].items():
        for (col, rt, rc) in ts['fks']:
            if rt not in post['tables']:
                viols.append(violation('C11.fk_target_missing', table=t,
                                       column=col, target=rt, **detail))
            elif rc not in post['tables'][rt]['columns']:
                viols.append(violation('C11.fk_target_missing', table=t,
                                       column=col, target=rt,
                                       target_column=rc, **detail))
    if post['fk_check']:
        viols.append(violation('C11.fk_check', rows=[
            list(map(str, x)) for x in post['fk_check'][:4]], **detail))
    fresh, _ = common.fresh_snapshot(P, sts, 2)
    res['runs'] += 1
    for dd in common.schema_diffs(post, fresh, sts[2], sorted(sts[2]['apps'])):
        if dd['kind'].startswith('fk') or dd['kind'].startswith('column'):
            viols.append(violation('C11.fk_target_missing', table=dd['table'],
                                   diff_kind=dd['kind'],
                                   what=[str(x) for x in dd['what']],
                                   **detail))
    # rows still point at their parents
    want = {'va_book': [2]}
    for t, vals in want.items():
        got = [r for r in post['tables'].get(t, {}).get('rows', [])]
        if len(got) != 1:
            viols.append(violation('C11.fk_check', table=t,
                                   rows_now=len(got), **detail))
    res['sample'] = dict(detail)
    return res


def relation_topology(state):
    out = []
    for a in sorted(state['apps']):
        for m in state['apps'][a]['models']:
            for f in m['fields']:
                if f.get('to'):
                    out.append('%s.%s.%s->%s' % (a, m['name'], f['kind'],
                                                 f['to']))
    return sorted(out)


def execute(scn):
    if scn['kind'] == 'pk_rename':
        return _exec_pk_rename(scn)
    if scn['kind'] == 'label_reuse':
        return _exec_label_reuse(scn)
    P = scn['project']
    sts = proj.states(P)
    stats, viols = {}, []
    tags = common.op_tags(P)
    deleted_models = set()
    for evo in P['apps']['va']['steps'][0]['evos']:
        for m in evo['mutations']:
            if m['op'] == 'DeleteModel':
                deleted_models.add('va.' + m['model'])
    topo = relation_topology(sts[0])
    res = {'violations': viols, 'stats': stats, 'nontrivial': False,
           'shape': spec.canon([scn['kind'], tags, [
               t.split('.', 2)[2] for t in topo]]), 'runs': 0}
    freed, reuse = set(), False
    for evo in P['apps']['va']['steps'][0]['evos']:
        for m in evo['mutations']:
            if m['op'] == 'RenameModel':
                if m['new'] in freed:
                    reuse = True
                freed.add(m['old'])
            elif m['op'] == 'DeleteModel':
                freed.add(m['model'])
    homonym = False
    blob = json.dumps([sts[0], sts[-1], P['apps']['va']['steps']])
    for evo in P['apps']['va']['steps'][0]['evos']:
        for m in evo['mutations']:
            if m['op'] == 'RenameModel':
                for other in sts[0]['apps']:
                    if other != 'va' and '"to": "%s.%s"' % (
                            other, m['old']) in blob:
                        homonym = True
    detail = dict(kind=scn['kind'], ops=tags, ops_str=' '.join(tags),
                  model_name_reuse=reuse, renamed_name_in_other_app=homonym)
    with runner.Workspace() as ws:
        r0 = common.install(ws, P, sts, 0, scn['rows'])
        if getattr(r0, 'rows_rejected', None) or r0.status != 'ok':
            stats['install_skipped'] = 1
            res['runs'] = ws.nruns
            return res
        proj.deploy(ws, P, 1, sts)
        ws.fork_db('base')
        plan = []
        for evo in P['apps']['va']['steps'][0]['evos']:
            plan.append({'pkg': 'va', 'label': evo['label'],
                         'app_label': 'va', 'legacy': 'va'})
        w = ws.run('simulate_walk', {'plan': plan})
        steps = w.probe('walk') or []
        if w.status != 'ok':
            stats['walk_failed'] = 1
        renamed = any(t.startswith(('RenameModel', 'RenameAppLabel',
                                    'RenameField', 'DeleteModel',
                                    'DeleteField')) for t in tags)
        res['nontrivial'] = bool(renamed and topo)
        for i, rec in enumerate(steps):
            bad = [d for d in rec.get('dangling') or []
                   if d[3] not in deleted_models]
            if bad and i > 0:
                viols.append(violation(
                    'C11.dangling_related_model', when='simulated',
                    after=rec.get('after'), refs=bad[:4], **detail))
                break
        # real run
        r = ws.run('evolve', {'execute': True}, probes=['sig'])
        post = snapshot.snapshot(ws)
        res['runs'] = ws.nruns
        if common.rejected_before_sql(r):
            out = r.stdout() + r.stderr()
            if "Property 'related_model' has changed" in out or \
                    'related_model' in out:
                viols.append(violation(
                    'C11.valid_rename_rejected',
                    out=out[-300:], **detail))
            else:
                stats['rejected_before_sql'] = 1
            res['sample'] = {'kind': scn['kind'], 'ops': tags,
                             'topology': topo[:6], 'rejected': True}
            return res
        if r.status != 'ok':
            stats['run_failed'] = 1            # C01's business
            return res
        # stored signature walk, from outside: parse the JSON
        apps = c03.stored_apps(post) or {}
        for a, asig in apps.items():
            for mn, msig in (asig.get('models') or {}).items():
                for fn, fsig in (msig.get('fields') or {}).items():
                    rel = fsig.get('related_model')
                    if not rel or rel in deleted_models:
                        continue
                    ra, rm = rel.split('.', 1)
                    if ra not in apps or rm not in (
                            apps[ra].get('models') or {}):
                        viols.append(violation(
                            'C11.dangling_related_model', when='stored',
                            refs=[[a, mn, fn, rel]], **detail))
        # database: every FK target exists and validates
        for t, ts in post['tables'].items():
            for (col, rt, rc) in ts['fks']:
                if rt not in post['tables']:
                    viols.append(violation('C11.fk_target_missing', table=t,
                                           column=col, target=rt, **detail))
                elif rc not in post['tables'][rt]['columns']:
                    viols.append(violation('C11.fk_target_missing', table=t,
                                           column=col, target=rt,
                                           target_column=rc, **detail))
        if post['fk_check']:
            viols.append(violation('C11.fk_check',
                                   rows=[list(map(str, x))
                                         for x in post['fk_check'][:4]],
                                   **detail))
        stats['accepted'] = 1
        stats['kind_' + scn['kind']] = 1
        res['sample'] = {'kind': scn['kind'], 'ops': tags,
                         'topology': topo[:6]}
    return res


def shrinks(scn):
    if scn['kind'] == 'models':
        for c in scenarios.shrink_single_step(scn):
            c['kind'] = 'models'
            yield c
