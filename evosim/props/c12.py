"""C12 - upgrades that cannot reach the current models never touch the
database.

A valid (models, evolution) pair gets one perturbation of the evolution file
(the fault); the target models stay.  `evolve --execute --noinput` runs in a
fresh process.  Dichotomy: the command rejects -> no write statement at all
and the database (schema, rows, labels, signature) is byte-identical; or it
accepts -> the result must be right (schema of the deployed models, nothing
left to do).
"""
import copy
import re

from evosim import gen, project as proj, runner, scenarios, snapshot, spec
from evosim.engine import violation
from evosim.props import common

ID = 'C12'
LEVEL = 'exploration'
LEVEL_TEXT = ('seeded search over perturbed evolutions (drop / duplicate / '
              'reorder / rename / attribute change / initial removed / '
              'retarget / primary-key delete), each executed through the '
              'evolve command in a fresh process; the oracle is a dichotomy '
              'needing no second opinion on validity')
TECHNIQUE = ('deterministic simulation: evolution-file perturbation as the '
             'injected fault, statement trace via connection.execute_wrapper '
             '(zero writes on rejection), sqlite3 snapshots before/after')
PLAN = {
    'quick': {'count': 1000, 'max_wall': 170, 'shrink_budget': 25,
              'shrink_wall': 120},
    'thorough': {'count': 9000, 'max_wall': 1500, 'shrink_budget': 60,
                 'shrink_wall': 300},
}
RULE_TEXT = (
    'scenario = C01 single-step generator (hand-written evolutions, rows '
    'present) + one seeded perturbation of one mutation; non-trivial = the '
    'command rejected the evolution (any listed reason) or executed SQL; '
    'distinct = (perturbation kind, mutated op, outcome class, shape digest '
    'of the models). Probes count each rejection reason.')
RULE_TEXT += ' 4%: legacy databases whose stored unique_together was never applied, with and without the resolving ChangeMeta.'
ASSUMPTIONS = [
    'the database is initialised at V0 by an earlier successful run, so '
    '"no SQL runs" is literal: every non-SELECT, non-PRAGMA, non-'
    'transaction-control statement from process start counts',
    'an accepted perturbed evolution is judged like C01 (fresh schema of '
    'the deployed models) and must leave nothing to do',
]

KINDS = ['drop', 'duplicate', 'swap', 'rename_field', 'rename_model',
         'attr_value', 'strip_initial', 'retarget', 'delete_pk',
         'add_existing', 'missing_app_model']


# perturbations that produce one of the defects the property lists by name
MUST_REJECT = ('strip_initial', 'delete_pk', 'add_existing',
               'missing_app_model', 'rename_model', 'rename_field')


def perturb(rng, scn):
    """Return (kind, description) after perturbing scn in place, or None."""
    evos = scn['project']['apps']['va']['steps'][0]['evos']
    flat = [(ei, mi) for ei, e in enumerate(evos)
            for mi, m in enumerate(e['mutations']) if m['op'] != 'NewModel']
    if not flat:
        return None
    sts = proj.states(scn['project'])
    models0 = sts[0]['apps']['va']['models']
    for _ in range(10):
        kind = rng.choice(KINDS)
        ei, mi = rng.choice(flat)
        muts = evos[ei]['mutations']
        m = muts[mi]
        if kind == 'drop':
            del muts[mi]
            return kind, m['op']
        if kind == 'duplicate':
            muts.insert(mi, copy.deepcopy(m))
            return kind, m['op']
        if kind == 'swap' and len(flat) > 1:
            (e2, m2) = rng.choice([x for x in flat if x != (ei, mi)])
            a, b = evos[ei]['mutations'][mi], evos[e2]['mutations'][m2]
            evos[ei]['mutations'][mi], evos[e2]['mutations'][m2] = b, a
            return kind, '%s<->%s' % (a['op'], b['op'])
        if kind == 'rename_field':
            for key in ('name', 'old'):
                if isinstance(m.get(key), str):
                    m[key] = m[key] + 'q'
                    return kind, m['op']
            if m['op'] == 'AddField':
                m['field']['name'] += 'q'
                return kind, m['op']
        if kind == 'rename_model':
            for key in ('model', 'old'):
                if isinstance(m.get(key), str):
                    m[key] = 'Nope'
                    return kind, m['op']
        if kind == 'attr_value':
            if m['op'] == 'AddField':
                a = m['field']['attrs']
                if m['field']['kind'] in spec.FK_KINDS and \
                        rng.random() < 0.6:
                    # relations are indexed by default
                    a['db_index'] = not a.get('db_index', True)
                elif 'max_length' in a:
                    a['max_length'] += 7
                else:
                    a['null'] = not a.get('null', False)
                    if not a['null'] and 'initial' not in m:
                        m['initial'] = gen.INITIAL_POOL.get(
                            m['field']['kind'], [1])[0]
                return kind, m['op']
            if m['op'] == 'ChangeField' and m.get('attrs'):
                k = sorted(m['attrs'])[0]
                v = m['attrs'][k]
                if isinstance(v, bool):
                    m['attrs'][k] = not v
                    if k == 'null' and v:
                        m['initial'] = 1
                elif isinstance(v, int):
                    m['attrs'][k] = v + 3
                else:
                    m['attrs'][k] = 'zz_%s' % v
                return kind, m['op']
            if m['op'] == 'RenameModel':
                m['db_table'] = m['db_table'] + '_x'
                return kind, m['op']
        if kind == 'strip_initial' and 'initial' in m and \
                m.get('initial') is not None:
            need = (m['op'] == 'AddField' and
                    not m['field']['attrs'].get('null')) or (
                m['op'] == 'ChangeField' and
                (m.get('attrs') or {}).get('null') is False)
            if need:
                del m['initial']
                return kind, m['op']
        if kind == 'retarget' and isinstance(m.get('model'), str):
            others = [x['name'] for x in models0 if x['name'] != m['model']]
            if others:
                m['model'] = rng.choice(others)
                return kind, m['op']
        if kind == 'delete_pk' and models0:
            mname = rng.choice(models0)['name']
            muts.insert(mi, {'op': 'DeleteField', 'model': mname,
                             'name': 'id'})
            return kind, 'DeleteField', mname
        if kind == 'add_existing' and models0:
            mm = rng.choice(models0)
            if mm['fields']:
                f = copy.deepcopy(rng.choice(mm['fields']))
                mut = {'op': 'AddField', 'model': mm['name'], 'field': f}
                if f['kind'] != 'ManyToMany' and not f['attrs'].get('null'):
                    mut['initial'] = gen.INITIAL_POOL.get(f['kind'], [1])[0]
                muts.insert(mi, mut)
                return kind, 'AddField', mm['name']
        if kind == 'missing_app_model':
            muts.insert(mi, {'op': 'DeleteModel', 'model': 'Ghost'})
            return kind, 'DeleteModel'
    return None


def _marker(scn, kind):
    """Canonical form of the offending mutation (so that a shrunk scenario
    that lost it is not judged by the must-reject rule)."""
    evs = scn['project']['apps']['va']['steps'][0]['evos']
    for e in evs:
        for m in e['mutations']:
            if kind == 'delete_pk' and m['op'] == 'DeleteField' and \
                    m.get('name') == 'id':
                return spec.canon(m)
            if kind == 'missing_app_model' and m.get('model') == 'Ghost':
                return spec.canon(m)
            if kind == 'rename_model' and 'Nope' in (m.get('model'),
                                                     m.get('old')):
                return spec.canon(m)
            if kind == 'rename_field' and any(
                    isinstance(m.get(k), str) and m[k].endswith('q')
                    for k in ('name', 'old')) or (
                    kind == 'rename_field' and m['op'] == 'AddField'
                    and m['field']['name'].endswith('q')):
                return spec.canon(m)
            if kind == 'strip_initial' and 'initial' not in m and (
                    (m['op'] == 'AddField'
                     and not m['field']['attrs'].get('null')
                     and m['field']['kind'] != 'ManyToMany') or
                    (m['op'] == 'ChangeField' and
                     (m.get('attrs') or {}).get('null') is False)):
                return spec.canon(m)
    return None


def _has_marker(scn):
    mk = (scn.get('perturbation') or {}).get('marker')
    if mk is None:
        return True
    for e in scn['project']['apps']['va']['steps'][0]['evos']:
        for m in e['mutations']:
            if spec.canon(m) == mk:
                return True
    return False


def _offending_models(scn, kind):
    out = set()
    evs = scn['project']['apps']['va']['steps'][0]['evos']
    for e in evs:
        for m in e['mutations']:
            if kind == 'delete_pk' and m['op'] == 'DeleteField' and \
                    m.get('name') == 'id':
                out.add(m['model'])
            elif kind == 'missing_app_model' and m.get('model') == 'Ghost':
                out.add('Ghost')
            elif kind == 'rename_model' and 'Nope' in (m.get('model'),
                                                       m.get('old')):
                out.add('Nope')
            elif kind == 'rename_field' and m['op'] == 'RenameModel' and \
                    m['old'].endswith('q'):
                out.add(m['old'])
    if not out:
        for e in evs:
            for m in e['mutations']:
                if isinstance(m.get('model'), str):
                    out.add(m['model'])
    return out


def changed_models(scn):
    """Model names the evolver's pending-mutation filter keeps: present in
    both signatures and different, or present only in the stored one."""
    sts = proj.states(scn['project'])
    old = {m['name']: m for m in sts[0]['apps']['va']['models']}
    new = {m['name']: m for m in scn['target_state']['apps']['va']['models']}
    out = set()
    for n in old:
        if n not in new:
            out.add(n)
        elif spec.canon(spec.normalised_models([old[n]])) != spec.canon(
                spec.normalised_models([new[n]])):
            out.add(n)
    return out


def _gen_legacy_ut(rng):
    """A database whose stored signature records a unique_together that was
    never applied (Django Evolution < 0.7).  Only a ChangeMeta of
    unique_together resolves that difference; an evolution without it
    leaves a residual difference and must be refused."""
    intf = lambda n, null=False: {'name': n, 'kind': 'Integer',
                                  'attrs': {'null': True} if null else {}}
    item = {'name': 'Item', 'fields': [intf('a'), intf('b'),
                                       intf('c', True), intf('d', True)],
            'meta': {'unique_together': [['a', 'b']]}}
    other = rng.choice([
        {'op': 'DeleteField', 'model': 'Item', 'name': 'c'},
        {'op': 'AddField', 'model': 'Item', 'field': intf('e', True)},
        {'op': 'ChangeField', 'model': 'Item', 'name': 'd',
         'attrs': {'db_index': True}}])
    cm = {'op': 'ChangeMeta', 'model': 'Item', 'prop': 'unique_together',
          'value': [['a', 'b']]}
    valid = [other, cm] if rng.random() < 0.5 else [cm, other]
    control = rng.random() < 0.3
    project = {'apps': {'va': {'v0': [item], 'steps': [{'evos': [
        {'label': spec.evo_label(0), 'mutations': valid}]}]}},
        'order': ['va'], 'databases': ['default']}
    sts = proj.states(project)
    step = project['apps']['va']['steps'][0]
    step['target'] = copy.deepcopy(sts[1]['apps']['va']['models'])
    scn = {'project': project, 'cfg': {}, 'legacy_ut': True,
           'control': control,
           'rows': {'va_item': [{'id': 1, 'a': 1, 'b': 1, 'c': None,
                                 'd': None},
                                {'id': 2, 'a': 1, 'b': 2, 'c': 5,
                                 'd': None}]},
           'target_state': copy.deepcopy(sts[1]), 'clean': True,
           'perturbation': {'kind': 'none' if control else 'drop',
                            'on': 'ChangeMeta', 'marker': None,
                            'models': ['Item']}}
    if not control:
        step['evos'][0]['mutations'] = [other]
    return scn


def generate(seed, index, tier):
    if index % 25 == 24:
        return _gen_legacy_ut(scenarios.derive_rng(seed, ID, index))
    for attempt in range(20):
        rng = scenarios.derive_rng(seed, ID, index, attempt)
        cfg = gen.swarm_config(rng)
        cfg['ops']['NewModel'] = 0
        if rng.random() < 0.6:
            cfg['meta'] = []
            cfg['kinds'] = [k for k in cfg['kinds']
                            if k != 'PositiveInteger'] or ['Integer']
            cfg['clean_rebuild'] = True
        scn = scenarios.single_step(rng, cfg=cfg)
        if not scn['project']['apps']['va']['steps'][0]['evos']:
            continue
        # sometimes extend the valid evolution by a type change that also
        # makes the column non-null (initial value required)
        if rng.random() < 0.15:
            st_now = proj.states(scn['project'])[1]
            st_old = proj.states(scn['project'])[0]
            touched = set()
            for e_ in scn['project']['apps']['va']['steps'][0]['evos']:
                for m_ in e_['mutations']:
                    for k_ in ('name', 'old', 'new'):
                        if isinstance(m_.get(k_), str):
                            touched.add((m_.get('model'), m_[k_]))
                    if m_['op'] == 'AddField':
                        touched.add((m_['model'], m_['field']['name']))
                    if m_['op'] in ('RenameModel', 'DeleteModel'):
                        touched.add((m_.get('old') or m_.get('model'), '*'))
            old_fields = {(m['name'], f['name'])
                          for m in st_old['apps']['va']['models']
                          for f in m['fields']}
            cands = [(m, f) for m in st_now['apps']['va']['models']
                     for f in m['fields']
                     if f['kind'] in ('Char', 'Integer')
                     and (m['name'], f['name']) in old_fields
                     and (m['name'], f['name']) not in touched
                     and (m['name'], '*') not in touched
                     and f['attrs'].get('null')
                     and not spec.fields_in_meta(m).get(f['name'])
                     and not f['attrs'].get('unique')
                     and not f['attrs'].get('db_index')]
            trows_ok = True
            if cands:
                m, f = rng.choice(cands)
                keep = {k2: v for k2, v in f['attrs'].items()
                        if k2 in ('db_column',)}
                keep['null'] = False
                newkind = 'Text' if f['kind'] == 'Char' else 'BigInteger'
                extra = {'op': 'ChangeField', 'model': m['name'],
                         'name': f['name'], 'kind': newkind, 'attrs': keep,
                         'initial': 'x' if newkind == 'Text' else 7}
                evs = scn['project']['apps']['va']['steps'][0]['evos']
                evs[-1]['mutations'].append(extra)
                try:
                    for st_ in proj.states(scn['project']):
                        spec.validate_state(st_)
                    scn['forced_strip'] = [len(evs) - 1,
                                           len(evs[-1]['mutations']) - 1]
                except spec.SpecError:
                    evs[-1]['mutations'].pop()
        sts = proj.states(scn['project'])
        # the target models are those of the VALID evolution
        step = scn['project']['apps']['va']['steps'][0]
        step['target'] = copy.deepcopy(sts[1]['apps']['va']['models'])
        scn['target_state'] = copy.deepcopy(sts[1])
        if scn.get('forced_strip'):
            ei, mi = scn['forced_strip']
            mu = scn['project']['apps']['va']['steps'][0]['evos'][ei][
                'mutations'][mi]
            del mu['initial']
            p = ('strip_initial', 'ChangeField:type')
        else:
            p = perturb(rng, scn)
        if p is None:
            continue
        scn['perturbation'] = {'kind': p[0], 'on': p[1]}
        # which model does the offending mutation name, and would the
        # evolver's pending-mutation filter keep it?
        scn['perturbation']['marker'] = _marker(scn, p[0])
        if len(p) > 2:
            scn['perturbation']['models'] = [p[2]]
        else:
            scn['perturbation']['models'] = sorted(
                _offending_models(scn, p[0]))
        scn['clean'] = bool(cfg.get('clean_rebuild'))
        return scn
    return scn


def reason_of(run):
    text = ((run.exit or {}).get('msg') or '') + ' ' + run.stdout() + \
        run.stderr()
    table = [
        ('primary key', 'pk_delete'),
        ('already exists', 'field_exists'),
        ('non-null initial', 'no_initial'),
        ('Unable to find a model signature', 'missing_model'),
        ('Unable to find a field signature', 'missing_field'),
        ('Unable to find an app signature', 'missing_app'),
        ('does not exist', 'missing_field'),
        ('cannot resolve', 'residual_diff'),
        ('do not completely resolve', 'residual_diff'),
        ('could not be resolved', 'residual_diff'),
        ('Cannot', 'cannot_other'),
    ]
    for needle, name in table:
        if needle in text:
            return name
    return 'other'


def execute(scn):
    P = scn['project']
    sts = proj.states(P)
    stats, viols = {}, []
    pert = scn.get('perturbation') or {}
    tags = common.op_tags(P)
    try:
        kept = changed_models(scn)
        named = set(pert.get('models') or [])
        if pert.get('marker'):
            # the offending mutation itself names exactly one model
            import json as _json2
            mk_model = _json2.loads(pert['marker']).get('model')
            if isinstance(mk_model, str):
                named = {mk_model}
        filtered = bool(named) and not (named & kept)
    except Exception:
        filtered = False
    from evosim import history as _history
    feats = _history.features([m for e in P['apps']['va']['steps'][0]['evos']
                               for m in e['mutations']])
    detail = dict(perturbation=pert.get('kind'), on=pert.get('on'),
                  offending_mutation_filtered=filtered,
                  rename_entangled=feats['rename_entangled'],
                  name_reuse=feats['name_reuse'],
                  reuse_kinds=feats['reuse_kinds'],
                  ops=tags, ops_str=' '.join(tags),
                  clean=bool(scn.get('clean')))
    res = {'violations': viols, 'stats': stats, 'nontrivial': False,
           'shape': None, 'runs': 0}
    outcome = 'x'
    with runner.Workspace() as ws:
        r0 = common.install(ws, P, sts, 0, scn['rows'])
        if getattr(r0, 'rows_rejected', None) or r0.status != 'ok':
            stats['install_skipped'] = 1
            res['runs'] = ws.nruns
            return res
        if scn.get('legacy_ut'):
            lg = ws.run('legacy_sig', {'unapplied_unique_together': True})
            if lg.status != 'ok':
                raise runner.HarnessError('legacy_sig failed: %s' % (
                    (lg.exit or {}).get('msg'),))
            import sqlite3
            con = sqlite3.connect(ws.db_path())
            for (name,) in con.execute(
                    "SELECT name FROM sqlite_master WHERE type='index' AND "
                    "tbl_name='va_item' AND sql LIKE 'CREATE UNIQUE INDEX%'"
            ).fetchall():
                con.execute('DROP INDEX "%s"' % name)
            con.commit()
            con.close()
            stats['legacy_unique_together'] = 1
        pre = snapshot.snapshot(ws)
        proj.deploy(ws, P, 1, sts)
        r = ws.run('evolve', {'execute': True})
        post = snapshot.snapshot(ws)
        res['runs'] = ws.nruns
        writes = r.writes()
        if r.status in ('command_error', 'exception') and not writes:
            outcome = 'rejected'
            reason = reason_of(r)
            stats['reject_' + reason] = 1
            res['nontrivial'] = True
            if r.status == 'exception':
                viols.append(violation(
                    'C12.not_an_evolution_error',
                    exc=(r.exit or {}).get('exc'),
                    msg=((r.exit or {}).get('msg') or '')[:200], **detail))
            d = common.state_equal(pre, post)
            if d:
                viols.append(violation('C12.state_changed', diffs=d[:5],
                                       outcome='rejected', **detail))
        elif r.status != 'ok':
            outcome = 'failed_after_sql'
            stats['accepted_then_failed'] = 1
            res['nontrivial'] = True
            d = common.state_equal(pre, post)
            # a write happened although the command ended with an error
            bad = [e for e in writes if not e.get('inj')]
            simulated_ok = 'cannot resolve' not in (r.stdout() + r.stderr())
            if d:
                viols.append(violation('C12.state_changed', diffs=d[:5],
                                       outcome='failed_after_sql',
                                       msg=((r.exit or {}).get('msg')
                                            or '')[:200], **detail))
        else:
            if not writes:
                outcome = 'noop'
                stats['accepted_noop'] = 1
            else:
                outcome = 'accepted'
                stats['accepted_executed'] = 1
                res['nontrivial'] = True
            # accepted: the result must be right
            target = scn['target_state']
            P2 = copy.deepcopy(P)
            fresh, _ = common.fresh_snapshot(P2, [sts[0], target], 1)
            res['runs'] += 1
            rebuilt = common.rebuilt_tables(r)
            for dd in common.schema_diffs(post, fresh, target,
                                          sorted(target['apps'])):
                viols.append(violation(
                    'C12.accepted_residual', table=dd['table'],
                    kind=dd['kind'], what=dd['what'],
                    origin=dd.get('origin'),
                    shadowed=dd.get('shadowed', False),
                    rebuilt=dd['table'] in rebuilt, **detail))
            r2 = ws.run('evolve', {'execute': True})
            res['runs'] = ws.nruns + 1
            if r2.status != 'ok' or 'No database upgrade required' not in \
                    r2.stdout():
                viols.append(violation(
                    'C12.accepted_residual', kind='rerun_required',
                    table=None, what=[], origin=None, shadowed=False,
                    rebuilt=False, status=r2.status,
                    out=(r2.stdout() + r2.stderr())[-200:], **detail))
    # the defects the property lists by name must be rejected, whatever the
    # outcome would have looked like
    deleted_later = {m['model'] for e in P['apps']['va']['steps'][0]['evos']
                     for m in e['mutations'] if m['op'] == 'DeleteModel'}
    must = pert.get('kind') in MUST_REJECT and _has_marker(scn)
    if pert.get('kind') == 'rename_field' and pert.get('on') == 'AddField':
        must = False        # a misnamed new field is a residual-diff case
    if set(pert.get('models') or []) & deleted_later:
        must = False        # mutations of a model deleted in the same
        #                     batch are legitimately discarded
    if pert.get('kind') == 'strip_initial' and feats.get('merged_initials'):
        must = False        # the optimiser merges the mutation with another
        #                     one on the same field that carries the value
    mk = pert.get('marker')
    if mk:
        import json as _json
        om = _json.loads(mk)
        fname = om.get('name') or (om.get('field') or {}).get('name')
        for e in P['apps']['va']['steps'][0]['evos']:
            for m in e['mutations']:
                if m['op'] == 'DeleteField' and m.get('model') == om.get(
                        'model') and m.get('name') == fname and \
                        spec.canon(m) != mk:
                    must = False    # the field is deleted in the same batch
    if scn.get('legacy_ut'):
        # the dichotomy itself: without the ChangeMeta the stored
        # signature keeps differing from the models (unique_together not
        # applied), so the evolution must be refused; with it, accepted
        if not scn.get('control') and outcome != 'rejected':
            viols.append(violation('C12.residual_accepted', outcome=outcome,
                                   legacy_unique_together=True, **detail))
        if scn.get('control') and outcome not in ('accepted',):
            viols.append(violation('C12.valid_rejected', outcome=outcome,
                                   legacy_unique_together=True,
                                   msg=((r.exit or {}).get('msg') or '')[
                                       :200], **detail))
    if must and outcome in ('accepted', 'noop', 'failed_after_sql'):
        viols.append(violation('C12.listed_defect_accepted',
                               outcome=outcome, **detail))
    stats['perturb_' + str(pert.get('kind'))] = 1
    res['shape'] = spec.canon([pert.get('kind'), pert.get('on'), outcome,
                               scenarios.shape_digest(scn)])
    res['sample'] = {'perturbation': pert, 'ops': tags, 'outcome': outcome}
    return res


def shrinks(scn):
    for c in scenarios.shrink_single_step(scn):
        # the target models must stay those of the scenario
        yield c
