"""C13 - hinted evolution text is loadable and means what the hint meant.

Process A (hash seed h1) runs `evolve --hint`, `evolve --hint --sql` and
`evolve --hint --write L` against a database at V0 with the models at V1;
the "developer" adds L to SEQUENCE; process B (hash seed h2) loads the
written file the normal way: import, `evolve --sql`, `evolve --execute`.
A twin continuation executes the hint directly (`evolve --hint --execute`).
"""
import copy
import json
import re

from evosim import gen, project as proj, runner, scenarios, snapshot, spec
from evosim.engine import violation
from evosim.props import common, c03

ID = 'C13'
LEVEL = 'exploration'
LEVEL_TEXT = ('seeded search over generated model pairs: the hint text '
              'written by one process is imported, previewed and executed '
              'by another (different hash seed), and compared with the hint '
              'executed directly from byte-identical database copies')
TECHNIQUE = ('deterministic simulation of the file-and-process boundary: '
             'evolve --hint --write in one process, import / --sql / '
             '--execute in another under a different PYTHONHASHSEED, forked '
             'database for the twin continuation')
PLAN = {
    'quick': {'count': 450, 'max_wall': 170, 'shrink_budget': 30,
              'shrink_wall': 120},
    'thorough': {'count': 6000, 'max_wall': 1500, 'shrink_budget': 60,
                 'shrink_wall': 300},
}
RULE_TEXT = (
    'scenario = model set V0 and target V1 obtained by 1-4 generated edits '
    '(added / deleted / changed fields incl. type changes, Meta '
    'unique_together / index_together / indexes with conditions and '
    'expressions / constraints with nested, negated, OR, XOR Q trees and '
    'Deferrable, new relations); the evolution is whatever Diff.evolution() '
    'hints. Non-trivial = a hint file was written with at least one '
    'mutation; distinct = set of hinted mutation kinds + value shapes '
    '(Q connectors, expression, deferrable) digest.')
ASSUMPTIONS = [
    'only mutations Diff.evolution() produces from generated models are '
    'reached; directly constructed mutations are out of reach (DESIGN 7)',
    '"same effect" = same previewed SQL, same final schema / rows / stored '
    'signature as executing the hint directly',
]


def generate(seed, index, tier):
    rng = scenarios.derive_rng(seed, ID, index)
    cfg = gen.swarm_config(rng)
    cfg['ops']['RenameModel'] = 0
    cfg['ops']['RenameField'] = 0
    cfg['ops']['DeleteModel'] = 0
    cfg['ops']['ChangeMeta'] = 6
    cfg['index_conditions'] = True
    cfg['q_wrap'] = rng.random() < 0.6
    cfg['q_conn1'] = rng.random() < 0.5
    cfg['expressions'] = rng.random() < 0.5
    cfg['deferrable'] = rng.random() < 0.5
    if rng.random() < 0.8:
        cfg['meta'] = sorted(set(cfg['meta']) | set(rng.sample(
            ['unique_together', 'index_together', 'indexes', 'constraints'],
            2)))
    scn = scenarios.single_step(rng, cfg=cfg, two_apps=rng.random() < 0.2)
    scn['h1'], scn['h2'] = rng.sample([0, 1, 2, 3], 2)
    return scn


def wrap_in_multi(obj):
    """True if some Q spec has a 'wrap' node as a child of an and/or/xor
    node (the shape the hint text flattens)."""
    found = [False]

    def walk(n, parent):
        if isinstance(n, dict):
            if n.get('q') == 'wrap' and parent in ('and', 'or', 'xor'):
                found[0] = True
            if 'q' in n:
                c = n.get('c')
                if isinstance(c, list):
                    for x in c:
                        walk(x, n['q'])
                elif c is not None:
                    walk(c, n['q'])
            else:
                for v in n.values():
                    walk(v, None)
        elif isinstance(n, list):
            for x in n:
                walk(x, None)
    walk(obj, None)
    return found[0]


def value_shapes(text):
    out = set()
    for tok, name in (('models.Q(', 'Q'), (' | ', 'or'), (' & ', 'and'),
                      (' ^ ', 'xor'), ('~', 'not'), ('models.Q(models.Q(', 'wrap'), ('models.Q((', 'wrap'), ('models.F(', 'F'),
                      ('Deferrable', 'deferrable'), ("'condition'", 'cond'),
                      ("'expressions'", 'expr'), ('initial=', 'initial'),
                      ('field_type=', 'type_change'),
                      ('related_model=', 'relation')):
        if tok in text:
            out.add(name)
    return sorted(out)


def file_mutations(text):
    m = re.search(r'MUTATIONS = \[\n(.*)\n\]', text, re.S)
    if not m:
        return None
    lines = []
    for line in m.group(1).split('\n'):
        line = line.strip()
        if line.endswith(','):
            line = line[:-1]
        if line:
            lines.append(line)
    return lines


def execute(scn):
    P = scn['project']
    sts = proj.states(P)
    stats, viols = {}, []
    tags = common.op_tags(P)
    res = {'violations': viols, 'stats': stats, 'nontrivial': False,
           'shape': None, 'runs': 0}
    # project with the evolution replaced by a hinted file
    P2 = copy.deepcopy(P)
    step = P2['apps']['va']['steps'][0]
    step['target'] = sts[1]['apps']['va']['models']
    step['evos'] = [{'label': 'h1', 'mutations': [], 'hinted_file': True,
                     'unlisted': True}]
    sts2 = [sts[0], sts[1]]
    with runner.Workspace() as ws:
        r0 = common.install(ws, P, sts, 0, scn['rows'])
        if getattr(r0, 'rows_rejected', None) or r0.status != 'ok':
            stats['install_skipped'] = 1
            res['runs'] = ws.nruns
            return res
        proj.deploy(ws, P2, 1, sts2)
        ws.fork_db('base')
        a_hint = ws.run('evolve', {'hint': True}, hashseed=scn['h1'])
        a_sql = ws.run('evolve', {'hint': True, 'compile_sql': True},
                       hashseed=scn['h1'])
        a_w = ws.run('evolve', {'hint': True, 'write_evolution_name': 'h1'},
                     hashseed=scn['h1'])
        res['runs'] = ws.nruns
        if not ws.exists('va/evolutions/h1.py'):
            stats['nothing_hinted'] = 1
            return res
        text = ws.read_file('va/evolutions/h1.py')
        shapes = value_shapes(text)
        kinds = sorted(set(re.findall(r'^\s+(\w+)\(', text, re.M)))
        res['shape'] = spec.canon([kinds, shapes])
        res['nontrivial'] = True
        detail = dict(kinds=kinds, shapes=shapes, ops_str=' '.join(tags),
                      h1=scn['h1'], h2=scn['h2'],
                      q_wrap=wrap_in_multi(
                          [sts[1], P['apps']['va']['steps']]))
        for s in shapes:
            stats['shape_' + s] = 1
        placeholder = 'USER VALUE REQUIRED' in text or 'Placeholder' in text
        # developer lists the label
        ws.write_files({'va/evolutions/__init__.py':
                        spec.render_evolutions_init(['h1'])})
        # ---- B: import -----------------------------------------------------
        b_load = ws.run('load_evolution', {'modules': {'va': ['h1']}},
                        hashseed=scn['h2'])
        loaded = (b_load.probe('loaded') or {}).get('va.h1') or {}
        if placeholder:
            stats['placeholder_hint'] = 1
            b_x = ws.run('evolve', {'execute': True}, hashseed=scn['h2'])
            if b_x.status == 'ok' or b_x.writes():
                viols.append(violation('C13.placeholder_ran',
                                       status=b_x.status,
                                       writes=len(b_x.writes()), **detail))
            res['runs'] = ws.nruns
            res['sample'] = {'kinds': kinds, 'shapes': shapes,
                             'placeholder': True}
            return res
        if 'error' in loaded:
            viols.append(violation('C13.import_fails',
                                   error=loaded['error'][:300],
                                   text=text[-400:], **detail))
            res['runs'] = ws.nruns
            res['sample'] = {'kinds': kinds, 'shapes': shapes,
                             'import_error': loaded['error'][:100]}
            return res
        want = file_mutations(text)
        if want is not None and loaded.get('mutations') != want:
            # textual round trip only: Django squashes nested Q objects of
            # one connector, so str() of the loaded mutation may differ from
            # the file text without any difference in effect.  The verdict
            # is taken from the effect (preview SQL, outcome, signature).
            stats['loaded_text_differs'] = 1
        # ---- B: preview ------------------------------------------------------
        b_sql = ws.run('evolve', {'compile_sql': True}, hashseed=scn['h2'])
        if a_sql.status == 'ok' and b_sql.status == 'ok':
            if a_sql.stdout() != b_sql.stdout():
                viols.append(violation(
                    'C13.sql_differs', hinted=a_sql.stdout()[-400:],
                    loaded=b_sql.stdout()[-400:], **detail))
        elif b_sql.status != a_sql.status:
            viols.append(violation(
                'C13.load_rejected', hinted_status=a_sql.status,
                loaded_status=b_sql.status,
                msg=((b_sql.exit or {}).get('msg') or '')[:300], **detail))
        # ---- B: execute the file vs A': execute the hint directly ----------
        b_x = ws.run('evolve', {'execute': True}, hashseed=scn['h2'],
                     probes=['sig'])
        snap_b = snapshot.snapshot(ws)
        ws.use_db('base')
        ws.write_files({'va/evolutions/__init__.py':
                        spec.render_evolutions_init([])})
        a_x = ws.run('evolve', {'hint': True, 'execute': True},
                     hashseed=scn['h1'])
        snap_a = snapshot.snapshot(ws)
        res['runs'] = ws.nruns
        if a_x.status != b_x.status:
            viols.append(violation(
                'C13.outcome_differs', hinted_status=a_x.status,
                loaded_status=b_x.status,
                msg=((b_x.exit or {}).get('msg') or
                     (a_x.exit or {}).get('msg') or '')[:300], **detail))
        elif a_x.status == 'ok':
            user = [t for t in set(snap_a['tables']) | set(snap_b['tables'])
                    if not t.startswith(('django_', 'sqlite_'))]
            for d in c03.compare_outcomes(snap_b, snap_a, user):
                viols.append(violation(
                    'C13.effect_differs', kind=d[0], table=d[1],
                    what=[str(x) for x in d[2:]][:5], **detail))
            if c03.stored_apps(snap_a) != c03.stored_apps(snap_b):
                viols.append(violation('C13.signature_differs', **detail))
            stats['executed_both'] = 1
        else:
            stats['both_failed_' + a_x.status] = 1
        res['sample'] = {'kinds': kinds, 'shapes': shapes,
                         'file_tail': text[-300:]}
    return res


def shrinks(scn):
    return scenarios.shrink_single_step(scn)
