"""C14 - the SQL preview is exactly what an execution would run.

For every pending upgrade of generated histories, from one forked database
state: `evolve --sql` (under two PYTHONHASHSEEDs, separate processes),
`evolve --hint` where an evolution is still missing (two hash seeds), then
`evolve --execute`; the previewed statements must equal, in order and with
parameters substituted, the statements executed inside the app's
applying_evolution brackets.
"""
import copy

from evosim import history, project as proj, rowmodel, runner, scenarios, \
    snapshot, spec
from evosim.engine import violation
from evosim.props import common, c08

ID = 'C14'
LEVEL = 'exploration'
LEVEL_TEXT = ('seeded search over generated pending upgrades; preview, hint '
              'and execution are separate real processes started from '
              'byte-identical database copies, under different hash seeds')
TECHNIQUE = ('deterministic simulation: forked database state, one process '
             'per command, PYTHONHASHSEED as the injected nondeterminism, '
             'statement trace via connection.execute_wrapper vs captured '
             'stdout')
PLAN = {
    'quick': {'count': 400, 'max_wall': 170, 'shrink_budget': 20,
              'shrink_wall': 120},
    'thorough': {'count': 5000, 'max_wall': 1500, 'shrink_budget': 50,
                 'shrink_wall': 300},
}
RULE_TEXT = (
    'scenario = history V0..Vn (one or two apps; set-typed Meta such as '
    'unique_together / index_together and relations favoured), a start '
    'version i and target j>i (direct, so the preview covers several '
    'evolutions); hash seeds drawn from {0,1,2,3}. Non-trivial = the '
    'preview printed at least one statement; distinct = per-step mutation '
    'kinds + (i,j) digest.')
ASSUMPTIONS = [
    'comparison per app (the preview prints per task in INSTALLED_APPS '
    'order, execution follows the dependency graph)',
    'model creation, bookkeeping and transaction control are outside "the '
    'same evolutions" and are not compared',
    "parameters are substituted with the backend's own quote_sql_param, in "
    'the executing child',
]


def gen_index_batch(rng):
    """One wide model (5-9 plain fields) and one step with 2-4
    ChangeField(db_index / unique toggles) on distinct fields plus optional
    other mutations: several per-field index operations in one batch."""
    import copy
    nchar, nint = rng.randint(2, 5), rng.randint(2, 4)
    fields = []
    for i in range(nchar):
        fields.append({'name': 'c%d' % i, 'kind': 'Char',
                       'attrs': {'max_length': 20}})
    for i in range(nint):
        fields.append({'name': 'n%d' % i, 'kind': 'Integer', 'attrs': {}})
    rng.shuffle(fields)
    for f in fields:
        if rng.random() < 0.3:
            f['attrs']['db_index'] = True
    model = {'name': 'Item', 'fields': fields, 'meta': {}}
    picks = rng.sample(fields, rng.randint(2, min(4, len(fields))))
    muts = []
    for f in picks:
        muts.append({'op': 'ChangeField', 'model': 'Item', 'name': f['name'],
                     'attrs': {'db_index': not f['attrs'].get('db_index',
                                                              False)}})
    if rng.random() < 0.4:
        muts.insert(rng.randrange(0, len(muts) + 1), {
            'op': 'AddField', 'model': 'Item', 'field': {
                'name': 'extra', 'kind': 'Integer',
                'attrs': {'null': True}}})
    k = rng.choice([1, 1, 2])
    cut = rng.randrange(1, len(muts)) if k == 2 and len(muts) > 1 else None
    evos = [{'label': 'va_e1', 'mutations': muts}] if cut is None else [
        {'label': 'va_e1', 'mutations': muts[:cut]},
        {'label': 'va_a2', 'mutations': muts[cut:]}]
    project = {'apps': {'va': {'v0': [model], 'steps': [{'evos': evos}]}},
               'order': ['va'], 'databases': ['default']}
    rows = {'va_item': []}
    return {'project': project, 'rows': rows, 'rows_by_version': [rows, rows],
            'simple': False, 'cfg_meta': [], 'index_batch': True}


def generate(seed, index, tier):
    rng = scenarios.derive_rng(seed, ID, index)
    if rng.random() < 0.25:
        h = gen_index_batch(rng)
        h['start'], h['target'] = 0, 1
        h['h1'], h['h2'] = rng.sample([0, 1, 2, 3], 2)
        return h
    if rng.random() < 0.4:
        h = history.gen_history(rng, simple=True,
                                two_apps=rng.random() < 0.4)
    else:
        from evosim import gen
        cfg = gen.swarm_config(rng)
        cfg['ops']['RenameModel'] = 0
        cfg['ops']['DeleteModel'] = 0
        if rng.random() < 0.6:
            cfg['meta'] = ['unique_together', 'index_together'] + [
                x for x in cfg['meta'] if x in ('indexes', 'constraints')]
            cfg['meta_multi'] = True
            cfg['ops']['ChangeMeta'] = 6
            cfg['max_fields'] = 4
        h = history.gen_history(rng, simple=False, cfg=cfg,
                                two_apps=rng.random() < 0.4)
    n = proj.n_versions(h['project']) - 1
    h['start'] = rng.randrange(0, n)
    h['target'] = rng.randrange(h['start'] + 1, n + 1)
    seeds = rng.sample([0, 1, 2, 3], 2)
    h['h1'], h['h2'] = seeds
    return h


def parse_preview(text):
    """{app: [statement lines]} from `evolve --sql` output."""
    out = {}
    cur = None
    import re
    for line in text.splitlines():
        line = line.rstrip()
        m = re.match(r'^-- Evolve application "([^"]+)"', line)
        if m:
            cur = m.group(1)
            out.setdefault(cur, [])
            continue
        if not line.strip() or line.startswith('--'):
            continue
        if cur is not None:
            out[cur].append(line)
    return out


def executed_by_app(run):
    out = {}
    cur = None
    for e in run.events:
        if e['t'] == 'sig':
            if e['name'] == 'applying_evolution':
                cur = e['p']['app']
                out.setdefault(cur, [])
            elif e['name'] == 'applied_evolution':
                cur = None
        elif e['t'] == 'sql' and cur is not None and e['k'] != 'txn' \
                and not e.get('inj') and not (
                    e['k'] == 'pragma' and 'foreign_keys' in e['sql']):
            out[cur].append(e.get('rendered', e['sql']))
    return out


def execute(scn):
    P = scn['project']
    sts = proj.states(P)
    i, j = scn['start'], scn['target']
    stats, viols = {}, []
    muts = history.mutations_between(P, i, j)
    feats = history.features(muts)
    detail = dict(start=i, target=j, simple=scn['simple'], h1=scn['h1'],
                  h2=scn['h2'], **feats)
    res = {'violations': viols, 'stats': stats, 'nontrivial': False,
           'shape': spec.canon([[[m['op'] for e in step['evos']
                                  for m in e['mutations']]
                                 for step in P['apps']['va']['steps']],
                                i, j]), 'runs': 0}
    with runner.Workspace() as ws:
        proj.deploy(ws, P, i, sts)
        r0 = ws.run('evolve', {'execute': True})
        if r0.status != 'ok':
            stats['install_failed'] = 1
            res['runs'] = ws.nruns
            return res
        import sqlite3
        try:
            rowmodel.load(ws.db_path(), scn['rows_by_version'][i])
        except (sqlite3.IntegrityError, sqlite3.OperationalError):
            stats['rows_rejected'] = 1
        # ---- hint determinism: models at Vj, evolutions only up to Vj-1 ---
        if j - 1 >= i:
            files, installed = proj.render_version(P, j, sts)
            files_prev, _ = proj.render_version(P, j - 1, sts)
            mixed = dict(files)
            for k in list(mixed):
                if '/evolutions/' in k:
                    del mixed[k]
            for k, v in files_prev.items():
                if '/evolutions/' in k:
                    mixed[k] = v
            ws.write_files(mixed, clean=True)
            ws.installed_apps = installed
            ws.fork_db('base')
            h_a = ws.run('evolve', {'hint': True}, hashseed=scn['h1'])
            ws.use_db('base')
            h_b = ws.run('evolve', {'hint': True}, hashseed=scn['h2'])
            ws.use_db('base')
            if h_a.status == h_b.status == 'ok':
                stats['hint_compared'] = 1
                if h_a.stdout() != h_b.stdout():
                    viols.append(violation(
                        'C14.hashseed_hint_differs',
                        a=h_a.stdout()[-400:], b=h_b.stdout()[-400:],
                        **detail))
            hs_a = ws.run('evolve', {'hint': True, 'compile_sql': True},
                          hashseed=scn['h1'])
            ws.use_db('base')
            hs_b = ws.run('evolve', {'hint': True, 'compile_sql': True},
                          hashseed=scn['h2'])
            ws.use_db('base')
            if hs_a.status == hs_b.status == 'ok' and \
                    hs_a.stdout() != hs_b.stdout():
                viols.append(violation(
                    'C14.hashseed_sql_differs', mode='hint',
                    a=hs_a.stdout()[-400:], b=hs_b.stdout()[-400:],
                    **detail))
        # ---- preview vs execution -----------------------------------------
        proj.deploy(ws, P, j, sts, clean=True)
        ws.fork_db('base')
        p1 = ws.run('evolve', {'compile_sql': True}, hashseed=scn['h1'])
        ws.use_db('base')
        p2 = ws.run('evolve', {'compile_sql': True}, hashseed=scn['h2'])
        ws.use_db('base')
        x = ws.run('evolve', {'execute': True}, hashseed=scn['h2'],
                   render_sql=True)
        res['runs'] = ws.nruns
        if p1.status != 'ok' or p2.status != 'ok':
            if p1.status != p2.status:
                viols.append(violation('C14.hashseed_sql_differs',
                                       mode='status', a=p1.status,
                                       b=p2.status, **detail))
            stats['preview_rejected'] = 1
            return res
        if p1.stdout() != p2.stdout():
            viols.append(violation(
                'C14.hashseed_sql_differs', mode='preview',
                a=p1.stdout()[-500:], b=p2.stdout()[-500:], **detail))
        prev = parse_preview(p1.stdout())
        if any(prev.values()):
            res['nontrivial'] = True
        if x.status != 'ok':
            stats['execution_failed'] = 1       # C01's business
            # still compare the prefix that was executed
        exe = executed_by_app(x)
        # "in order" also across apps: the preview lists the apps in the
        # order in which their statements are executed
        prev_order = [a_ for a_ in prev if prev[a_]]
        exe_order = [a_ for a_ in exe if exe[a_]]
        if len(exe_order) > 1:
            stats['several_apps_with_sql'] = 1
        if x.status == 'ok' and sorted(prev_order) == sorted(exe_order) \
                and prev_order != exe_order:
            viols.append(violation('C14.preview_app_order',
                                   previewed=prev_order, executed=exe_order,
                                   installed=P['order'], **detail))
        for app in sorted(set(prev) | set(exe)):
            a, b = prev.get(app, []), exe.get(app, [])
            if x.status != 'ok':
                b_cmp, a_cmp = b, a[:len(b)]
            else:
                a_cmp, b_cmp = a, b
            if a_cmp != b_cmp:
                k = 0
                while k < min(len(a_cmp), len(b_cmp)) and \
                        a_cmp[k] == b_cmp[k]:
                    k += 1
                viols.append(violation(
                    'C14.preview_vs_executed', app=app, position=k,
                    previewed=(a_cmp[k] if k < len(a_cmp) else None),
                    executed=(b_cmp[k] if k < len(b_cmp) else None),
                    n_preview=len(a_cmp), n_executed=len(b_cmp),
                    exec_status=x.status, **detail))
        stats['previews_compared'] = 1
        if sum(len(v) for v in prev.values()) > 8:
            stats['long_preview'] = 1
        res['sample'] = {'start': i, 'target': j,
                         'preview_statements': {a: len(v)
                                                for a, v in prev.items()},
                         'first': [v[0][:80] for v in prev.values() if v]}
    return res


def shrinks(scn):
    P = scn['project']
    if scn['target'] - scn['start'] > 1:
        c = copy.deepcopy(scn)
        c['start'] += 1
        yield c
        c = copy.deepcopy(scn)
        c['target'] -= 1
        yield c
    if any(any(v.values()) for v in scn['rows_by_version']):
        c = copy.deepcopy(scn)
        c['rows_by_version'] = [{t: [] for t in rv}
                                for rv in c['rows_by_version']]
        yield c
