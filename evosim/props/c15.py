"""C15 - purging and deleting remove exactly what was named, nothing else.

2-4 generated apps with cross-app relations, M2M fields and db_table names
that are prefixes of each other are installed with rows; then app(s) are
removed from INSTALLED_APPS (a "deploy").  Run 1 upgrades WITHOUT --purge:
nothing of the removed apps may change.  Run 2 upgrades WITH --purge: exactly
the removed apps' tables (incl. auto M2M tables) and signature entries go,
every other table is byte-identical.  A second kind deletes by mutation
(DeleteApplication / DeleteModel).  Optionally a failure is injected into
the purge batch first, then retried.
"""
import copy

from evosim import gen, project as proj, rowmodel, runner, scenarios, \
    snapshot, spec
from evosim.engine import violation
from evosim.props import common, c03

ID = 'C15'
LEVEL = 'exploration'
LEVEL_TEXT = ('seeded search over generated multi-app projects x removed app '
              'subsets x {purge, no purge}; every run a real process; '
              'byte-level comparison of sqlite_master rows and table rows of '
              'the bystanders; one injected failure in the purge batch then '
              'a retry in 30% of the scenarios')
TECHNIQUE = ('deterministic simulation: INSTALLED_APPS change as a deploy '
             'step, real-process upgrade runs, sqlite3 snapshots before / '
             'after, sql_error@k in the purge batch + retry')
PLAN = {
    'quick': {'count': 700, 'max_wall': 170, 'shrink_budget': 20,
              'shrink_wall': 100},
    'thorough': {'count': 6000, 'max_wall': 1500, 'shrink_budget': 50,
                 'shrink_wall': 300},
}
RULE_TEXT = (
    'scenario = 2-4 apps (relations from later to earlier apps, M2M, '
    'db_table drawn from a prefix-of-each-other pool) + rows; kind "purge": '
    'a removable subset of apps leaves INSTALLED_APPS; kind "mutation": '
    'DeleteApplication or DeleteModel in an evolution. Non-trivial = the '
    'purge / delete dropped at least one table; distinct = digest of (app '
    'count, removed set, table names, relation topology, kind).')
RULE_TEXT += ' Kind "relabel_purge" (10%): a still-installed app changes its label in the run that purges a removed app.'
RULE_TEXT += ' Kind "purge_pending_fault" (1 in 20): purge + pending evolution in one run, every statement index fails in turn.'
ASSUMPTIONS = [
    'a removed app is never referenced by a remaining app (otherwise the '
    'remaining models would not import)',
    'ownership = tables of the app\'s models at the stored signature plus '
    'the auto-created through tables of its ManyToMany fields',
]

APPS = ['va', 'vb', 'vc', 'vd']
PREFIX_TABLES = ['t', 't_x', 't_x_y', 't_x_y_z', 'tt', 't_']


def _gen_relabel_purge(rng):
    """An installed app changes its label (AppConfig.label +
    RenameAppLabel with a legacy label) in the very run that purges another,
    really removed app: only the removed app's tables may go."""
    intf = lambda n: {'name': n, 'kind': 'Integer', 'attrs': {'null': True}}
    item = {'name': 'Item', 'fields': [intf('a')], 'meta': {}}
    va = [item]
    if rng.random() < 0.6:
        part = {'name': 'Part', 'fields': [intf('b')], 'meta': {}}
        va.append(part)
        if rng.random() < 0.6:
            item['fields'].append({
                'name': 'r', 'kind': rng.choice(['ManyToMany', 'ForeignKey']),
                'attrs': {}, 'to': 'va.Part'})
            if item['fields'][-1]['kind'] == 'ForeignKey':
                item['fields'][-1]['attrs']['null'] = True
    vb = [{'name': 'Node', 'fields': [intf('n')], 'meta': {}}]
    if rng.random() < 0.4:
        vb[0]['fields'].append({'name': 'm', 'kind': 'ManyToMany',
                                'attrs': {}, 'to': 'vb.Node'})
    project = {'apps': {
        'va': {'v0': va, 'labels': ['va', 'newa'], 'steps': [{'evos': [
            {'label': 'relabel', 'mutations': [
                {'op': 'RenameAppLabel', 'old': 'va', 'new': 'newa',
                 'legacy': 'va'}]}]}]},
        'vb': {'v0': vb, 'steps': [{'evos': []}]}},
        'order': rng.choice([['va', 'vb'], ['vb', 'va']]),
        'databases': ['default']}
    rows = {'va_item': [{'id': 1, 'a': 5}, {'id': 2, 'a': None}],
            'vb_node': [{'id': 1, 'n': 7}]}
    return {'kind': 'relabel_purge', 'project': project, 'rows': rows,
            'removed': ['vb']}


def _exec_relabel_purge(scn, res, stats, viols):
    P = scn['project']
    sts = proj.states(P)
    with runner.Workspace() as ws:
        r0 = common.install(ws, P, sts, 0, scn['rows'])
        if getattr(r0, 'rows_rejected', None) or r0.status != 'ok':
            raise runner.HarnessError('relabel_purge install: %s %s' % (
                r0.status, getattr(r0, 'rows_rejected', None)))
        base = snapshot.snapshot(ws)
        mine = owned_tables(sts[0], ['vb'])
        others = owned_tables(sts[0], ['va'])
        detail = dict(kind='relabel_purge', removed=['vb'],
                      tables=sorted(mine | others))
        proj.deploy(ws, P, 1, sts, apps=['va'], clean=True)
        r = ws.run('evolve', {'execute': True, 'purge': True})
        s2 = snapshot.snapshot(ws)
        res['runs'] = ws.nruns
        res['shape'] = spec.canon(['relabel_purge', sorted(mine | others),
                                   P['order']])
        stats['relabel_purge_scenarios'] = 1
        if r.status != 'ok':
            viols.append(violation(
                'C15.purge_failed', status=r.status,
                msg=((r.exit or {}).get('msg') or '')[:200], **detail))
            return res
        left = sorted(t for t in mine if t in s2['tables'])
        if left:
            viols.append(violation('C15.owned_table_left', left=left,
                                   **detail))
        dropped = sorted(t for t in others if t not in s2['tables'])
        if dropped:
            viols.append(violation('C15.foreign_table_dropped',
                                   dropped=dropped, **detail))
        for d in common.bystander_diffs(
                base, s2, [t for t in others if t in s2['tables']]):
            viols.append(violation('C15.bystander_changed', **dict(
                detail, diff=d)))
        a2 = c03.stored_apps(s2) or {}
        if 'vb' in a2 or 'va' in a2:
            viols.append(violation('C15.sig_entries',
                                   still=sorted(set(a2) & {'va', 'vb'}),
                                   **detail))
        if 'newa' not in a2:
            viols.append(violation('C15.sig_entries', missing='newa',
                                   **detail))
        res['nontrivial'] = bool(mine - set(s2['tables']))
        res['sample'] = {'kind': 'relabel_purge', 'order': P['order'],
                         'owned': sorted(mine), 'others': sorted(others)}
    return res


def _gen_purge_pending_fault(rng):
    """A purge shares its run with a pending evolution of an installed
    app, and a statement of the run fails at every index in turn: whatever
    fails, the removed app's tables and its signature entry stay together
    (both still there, or both gone)."""
    intf = lambda n: {'name': n, 'kind': 'Integer', 'attrs': {'null': True}}
    va = [{'name': 'Item', 'fields': [intf('a')], 'meta': {}}]
    vb = [{'name': 'Node', 'fields': [intf('n')], 'meta': {}}]
    if rng.random() < 0.5:
        vb[0]['fields'].append({'name': 'm', 'kind': 'ManyToMany',
                                'attrs': {}, 'to': 'vb.Node'})
    if rng.random() < 0.4:
        vb.append({'name': 'Part', 'fields': [intf('p')], 'meta': {}})
    project = {'apps': {
        'va': {'v0': va, 'steps': [{'evos': [{'label': 'add_b', 'mutations': [
            {'op': 'AddField', 'model': 'Item', 'field': intf('b')}]}]}]},
        'vb': {'v0': vb, 'steps': [{'evos': []}]}},
        'order': rng.choice([['va', 'vb'], ['vb', 'va']]),
        'databases': ['default']}
    return {'kind': 'purge_pending_fault', 'project': project,
            'removed': ['vb'],
            'rows': {'va_item': [{'id': 1, 'a': 3}],
                     'vb_node': [{'id': 1, 'n': 7}]}}


def _exec_purge_pending_fault(scn, res, stats, viols):
    P = scn['project']
    sts = proj.states(P)
    mine = owned_tables(sts[0], ['vb'])
    detail = dict(kind='purge_pending_fault', removed=['vb'],
                  tables=sorted(mine))
    res['shape'] = spec.canon(['purge_pending_fault', P['order'],
                               sorted(mine)])
    stats['purge_pending_fault_scenarios'] = 1
    with runner.Workspace() as ws:
        r0 = common.install(ws, P, sts, 0, scn['rows'])
        if r0.status != 'ok' or getattr(r0, 'rows_rejected', None):
            raise runner.HarnessError('purge_pending_fault install: %s' % (
                r0.status,))
        proj.deploy(ws, P, 1, sts, apps=['va'], clean=True)
        ws.fork_db('pre')
        u = ws.run('evolve', {'execute': True, 'purge': True}, scope='evo')
        if u.status != 'ok':
            viols.append(violation(
                'C15.purge_failed', status=u.status,
                msg=((u.exit or {}).get('msg') or '')[:200], **detail))
            res['runs'] = ws.nruns
            return res
        n = min(u.eligible_count(), 12)
        for k in range(n):
            ws.use_db('pre')
            f = ws.run('evolve', {'execute': True, 'purge': True},
                       fault={'kind': 'sql_error', 'k': k, 'scope': 'evo'})
            inj = f.injected()
            if inj is None:
                continue
            stats['fired_sql_error'] = stats.get('fired_sql_error', 0) + 1
            sf = snapshot.snapshot(ws)
            present = [t for t in sorted(mine) if t in sf['tables']]
            in_sig = 'vb' in (c03.stored_apps(sf) or {})
            if (len(present) not in (0, len(mine))) or \
                    (bool(present) != in_sig):
                viols.append(violation(
                    'C15.purged_tables_vs_signature', k=k,
                    statement=inj['sql'][:100], tables_present=present,
                    in_signature=in_sig, **detail))
        res['runs'] = ws.nruns
        res['nontrivial'] = bool(stats.get('fired_sql_error'))
        res['sample'] = {'kind': 'purge_pending_fault', 'order': P['order'],
                         'fault_points': n}
    return res


def _gen_empty_purge(rng):
    """An app deletes all of its models while still installed (its stored
    signature entry becomes empty) and leaves INSTALLED_APPS afterwards:
    the purge has no table to drop but still has to remove the entry."""
    intf = lambda n: {'name': n, 'kind': 'Integer', 'attrs': {'null': True}}
    va = [{'name': 'Item', 'fields': [intf('a')], 'meta': {}}]
    names = ['Node', 'Part'][:rng.choice([1, 2])]
    vb = [{'name': n, 'fields': [intf('n')], 'meta': {}} for n in names]
    project = {'apps': {
        'va': {'v0': va, 'steps': [{'evos': []}]},
        'vb': {'v0': vb, 'steps': [{'evos': [{'label': 'drop_all', 'mutations': [
            {'op': 'DeleteModel', 'model': n} for n in names]}]}]}},
        'order': rng.choice([['va', 'vb'], ['vb', 'va']]),
        'databases': ['default']}
    return {'kind': 'empty_purge', 'project': project, 'removed': ['vb'],
            'rows': {'va_item': [{'id': 1, 'a': 3}]},
            'pending_too': rng.random() < 0.3}


def _exec_empty_purge(scn, res, stats, viols):
    P = scn['project']
    sts = proj.states(P)
    detail = dict(kind='empty_purge', removed=['vb'], tables=['va_item'])
    with runner.Workspace() as ws:
        r0 = common.install(ws, P, sts, 0, scn['rows'])
        if r0.status != 'ok':
            raise runner.HarnessError('empty_purge install: %s' % r0.status)
        proj.deploy(ws, P, 1, sts)
        r1 = ws.run('evolve', {'execute': True})
        s1 = snapshot.snapshot(ws)
        res['shape'] = spec.canon(['empty_purge', P['order'],
                                   sorted(m['name'] for m in
                                          P['apps']['vb']['v0'])])
        stats['empty_purge_scenarios'] = 1
        if r1.status != 'ok' or any(
                t.startswith('vb_') for t in s1['tables']):
            viols.append(violation('C15.delete_failed', status=r1.status,
                                   msg=((r1.exit or {}).get('msg') or '')[
                                       :200], **detail))
            res['runs'] = ws.nruns
            return res
        proj.deploy(ws, P, 1, sts, apps=['va'], clean=True)
        r2 = ws.run('evolve', {'execute': True, 'purge': True})
        s2 = snapshot.snapshot(ws)
        res['runs'] = ws.nruns
        if r2.status != 'ok':
            viols.append(violation(
                'C15.purge_failed', status=r2.status,
                msg=((r2.exit or {}).get('msg') or '')[:200], **detail))
            return res
        a2 = c03.stored_apps(s2) or {}
        if 'vb' in a2:
            viols.append(violation('C15.sig_entries', still='vb',
                                   out=r2.stdout()[-120:], **detail))
        if 'va' not in a2:
            viols.append(violation('C15.sig_entries', missing='va',
                                   **detail))
        for d in common.bystander_diffs(s1, s2, ['va_item']):
            viols.append(violation('C15.bystander_changed', **dict(
                detail, diff=d)))
        res['nontrivial'] = True
        res['sample'] = {'kind': 'empty_purge', 'order': P['order']}
    return res


def generate(seed, index, tier):
    rng = scenarios.derive_rng(seed, ID, index)
    if index % 10 == 9:
        return _gen_relabel_purge(rng)
    if index % 20 == 8:
        return _gen_empty_purge(rng)
    if index % 20 == 18:
        return _gen_purge_pending_fault(rng)
    cfg = gen.default_config()
    cfg['relations'] = True
    cfg['m2m'] = rng.random() < 0.7
    cfg['meta'] = rng.sample(cfg['meta'], rng.choice([0, 0, 1, 2]))
    cfg['db_table'] = False
    cfg['max_models'] = rng.choice([1, 2, 2])
    cfg['max_rows'] = rng.choice([1, 2, 3])
    cfg['kinds'] = ['Char', 'Integer', 'Boolean', 'DateTime']
    g = gen.Gen(rng, cfg)
    napps = rng.choice([2, 3, 3, 4])
    apps = APPS[:napps]
    st = g.gen_state(apps)
    # db_table names that are prefixes of each other
    pool = PREFIX_TABLES[:]
    rng.shuffle(pool)
    for a in apps:
        for m in st['apps'][a]['models']:
            if pool and rng.random() < 0.4:
                m.setdefault('meta', {})['db_table'] = pool.pop()
    try:
        spec.validate_state(st)
    except spec.SpecError:
        for a in apps:
            for m in st['apps'][a]['models']:
                (m.get('meta') or {}).pop('db_table', None)
    rows = g.gen_rows(st)
    project = {'apps': {a: {'v0': st['apps'][a]['models'], 'steps': []}
                        for a in apps},
               'order': apps, 'databases': ['default']}
    kind = 'purge' if rng.random() < 0.7 else 'mutation'
    scn = {'kind': kind, 'project': project, 'rows': rows}

    def referenced_by_remaining(removed):
        for a in apps:
            if a in removed:
                continue
            for m in st['apps'][a]['models']:
                for f in m['fields']:
                    if f.get('to') and f['to'].split('.')[0] in removed:
                        return True
        return False
    if kind == 'purge':
        cands = []
        for mask in range(1, 1 << napps):
            rem = [apps[i] for i in range(napps) if mask >> i & 1]
            if len(rem) < napps and not referenced_by_remaining(set(rem)):
                cands.append(rem)
        if not cands:
            scn['kind'] = kind = 'mutation'
        else:
            scn['removed'] = rng.choice(cands)
    if kind == 'mutation':
        # delete by mutation in the last app (never referenced by others)
        a = apps[-1]
        models = st['apps'][a]['models']
        if rng.random() < 0.5 or len(models) < 2:
            muts = [{'op': 'DeleteApplication'}]
        else:
            # a model of the last app that no other model points at
            cand = [m for m in models if not [
                x for x in spec.relations_to(st, '%s.%s' % (a, m['name']))
                if not (x[0] == a and x[1] == m['name'])]]
            if cand:
                muts = [{'op': 'DeleteModel',
                         'model': rng.choice(cand)['name']}]
            else:
                muts = [{'op': 'DeleteApplication'}]
        project['apps'][a]['steps'].append(
            {'evos': [{'label': 'del1', 'mutations': muts}]})
        for b in apps[:-1]:
            project['apps'][b]['steps'].append({'evos': []})
        scn['deleting_app'] = a
    if rng.random() < 0.3:
        scn['fault'] = {'kind': 'sql_error', 'k': rng.randrange(0, 4),
                        'scope': 'evo'}
    return scn


def owned_tables(state, apps):
    return set(common.app_tables(state, apps))


def execute(scn):
    P = scn['project']
    sts = proj.states(P)
    stats, viols = {}, []
    apps = P['order']
    res = {'violations': viols, 'stats': stats, 'nontrivial': False,
           'shape': None, 'runs': 0}
    if scn['kind'] == 'relabel_purge':
        return _exec_relabel_purge(scn, res, stats, viols)
    if scn['kind'] == 'empty_purge':
        return _exec_empty_purge(scn, res, stats, viols)
    if scn['kind'] == 'purge_pending_fault':
        return _exec_purge_pending_fault(scn, res, stats, viols)
    st0 = sts[0]
    topo = []
    for a in apps:
        for m in st0['apps'][a]['models']:
            for f in m['fields']:
                if f.get('to'):
                    topo.append('%s.%s->%s' % (a, f['kind'], f['to']))
    all_tables = sorted(owned_tables(st0, apps))
    res['shape'] = spec.canon([scn['kind'], scn.get('removed'),
                               all_tables, sorted(topo),
                               bool(scn.get('fault'))])
    with runner.Workspace() as ws:
        r0 = common.install(ws, P, sts, 0, scn['rows'])
        if getattr(r0, 'rows_rejected', None) or r0.status != 'ok':
            stats['install_skipped'] = 1
            res['runs'] = ws.nruns
            return res
        base = snapshot.snapshot(ws)
        detail = dict(kind=scn['kind'], removed=scn.get('removed'),
                      tables=all_tables)
        if scn['kind'] == 'purge':
            removed = scn['removed']
            remaining = [a for a in apps if a not in removed]
            mine = owned_tables(st0, removed)
            proj.deploy(ws, P, 0, sts, apps=remaining, clean=True)
            # ---- without purge: nothing of the removed apps changes -------
            r1 = ws.run('evolve', {'execute': True})
            s1 = snapshot.snapshot(ws)
            if r1.status != 'ok':
                viols.append(violation(
                    'C15.no_purge_run_failed', status=r1.status,
                    msg=((r1.exit or {}).get('msg') or '')[:200], **detail))
            for d in common.state_equal(base, s1):
                if d.get('table') in snapshot.BOOK:
                    continue
                viols.append(violation('C15.kept_without_purge_missing',
                                       diff=d, **detail))
            a0, a1 = c03.stored_apps(base) or {}, c03.stored_apps(s1) or {}
            for a in removed:
                if a0.get(a) != a1.get(a):
                    viols.append(violation('C15.kept_without_purge_missing',
                                           sig_entry=a, **detail))
            # ---- with purge --------------------------------------------------
            if scn.get('fault'):
                ws.fork_db('pre')
                f = ws.run('evolve', {'execute': True, 'purge': True},
                           fault=scn['fault'])
                if f.injected() is not None:
                    stats['fired_sql_error'] = 1
                    sf = snapshot.snapshot(ws)
                    d = [x for x in common.state_equal(s1, sf)]
                    if d:
                        viols.append(violation(
                            'C15.failed_purge_changed_state', diffs=d[:4],
                            statement=f.injected()['sql'][:100], **detail))
            r2 = ws.run('evolve', {'execute': True, 'purge': True})
            s2 = snapshot.snapshot(ws)
            res['runs'] = ws.nruns
            if r2.status != 'ok':
                viols.append(violation(
                    'C15.purge_failed', status=r2.status,
                    msg=((r2.exit or {}).get('msg') or '')[:200], **detail))
                return res
            left = sorted(t for t in mine if t in s2['tables'])
            if left:
                viols.append(violation('C15.owned_table_left', left=left,
                                       **detail))
            others = owned_tables(st0, remaining)
            dropped = sorted(t for t in others if t not in s2['tables'])
            if dropped:
                viols.append(violation('C15.foreign_table_dropped',
                                       dropped=dropped, **detail))
            for d in common.bystander_diffs(
                    s1, s2, [t for t in others if t in s2['tables']]):
                viols.append(violation('C15.bystander_changed', **dict(
                    detail, diff=d)))
            a2 = c03.stored_apps(s2) or {}
            for a in removed:
                if a in a2:
                    viols.append(violation('C15.sig_entries', still=a,
                                           **detail))
            for a in remaining:
                if a1.get(a) != a2.get(a):
                    viols.append(violation('C15.sig_entries', changed=a,
                                           **detail))
            res['nontrivial'] = bool(mine - set(s2['tables']))
            stats['purge_scenarios'] = 1
            if any(t in PREFIX_TABLES for t in all_tables):
                stats['prefix_tables'] = 1
            res['sample'] = {'kind': 'purge', 'apps': apps,
                             'removed': removed, 'owned': sorted(mine),
                             'others': sorted(others)}
            return res
        # ---- deletion by mutation ---------------------------------------------
        a = scn['deleting_app']
        proj.deploy(ws, P, 1, sts)
        st1 = sts[1]
        gone = owned_tables(st0, [a]) - owned_tables(st1, [a])
        keep = owned_tables(st1, apps)
        r = ws.run('evolve', {'execute': True})
        s2 = snapshot.snapshot(ws)
        res['runs'] = ws.nruns
        muts = [m['op'] for m in P['apps'][a]['steps'][0]['evos'][0]
                ['mutations']]
        detail['mutations'] = muts
        if common.rejected_before_sql(r):
            stats['rejected_before_sql'] = 1
            return res
        if r.status != 'ok':
            viols.append(violation(
                'C15.delete_failed', status=r.status,
                msg=((r.exit or {}).get('msg') or '')[:200], **detail))
            return res
        left = sorted(t for t in gone if t in s2['tables'])
        if left:
            viols.append(violation('C15.owned_table_left', left=left,
                                   **detail))
        dropped = sorted(t for t in keep if t not in s2['tables'])
        if dropped:
            viols.append(violation('C15.foreign_table_dropped',
                                   dropped=dropped, **detail))
        for d in common.bystander_diffs(
                base, s2, [t for t in keep if t in s2['tables']]):
            viols.append(violation('C15.bystander_changed', **dict(
                detail, diff=d)))
        a0, a2 = c03.stored_apps(base) or {}, c03.stored_apps(s2) or {}
        for b in apps:
            if b != a and a0.get(b) != a2.get(b):
                viols.append(violation('C15.sig_entries', changed=b,
                                       **detail))
        res['nontrivial'] = bool(gone - set(s2['tables']))
        stats['mutation_scenarios'] = 1
        res['sample'] = {'kind': 'mutation', 'apps': apps, 'app': a,
                         'mutations': muts, 'gone': sorted(gone)}
    return res


def shrinks(scn):
    P = scn['project']
    if scn['kind'] in ('relabel_purge', 'empty_purge',
                       'purge_pending_fault'):
        return
    if scn.get('fault'):
        c = copy.deepcopy(scn)
        c.pop('fault')
        yield c
    if any(scn['rows'].values()):
        c = copy.deepcopy(scn)
        c['rows'] = {t: [] for t in c['rows']}
        yield c
    # drop an app that is neither removed / deleting nor referenced
    keep = set(scn.get('removed') or []) | {scn.get('deleting_app')}
    refd = set()
    for a in P['apps']:
        for m in P['apps'][a]['v0']:
            for f in m['fields']:
                if f.get('to'):
                    refd.add(f['to'].split('.')[0])
    for a in sorted(P['apps']):
        if a in keep or a in refd or len(P['apps']) <= 2:
            continue
        c = copy.deepcopy(scn)
        gone = set(common.app_tables({'apps': {a: {'models':
                                                   P['apps'][a]['v0']}}},
                                     [a]))
        del c['project']['apps'][a]
        c['project']['order'] = [x for x in c['project']['order'] if x != a]
        for t in gone:
            c['rows'].pop(t, None)
        yield c
    # drop a field not named anywhere (plain fields only)
    for a in sorted(P['apps']):
        for mi, m in enumerate(P['apps'][a]['v0']):
            for fi, f in enumerate(m['fields']):
                if f['kind'] in spec.REL_KINDS or \
                        spec.fields_in_meta(m).get(f['name']):
                    continue
                c = copy.deepcopy(scn)
                del c['project']['apps'][a]['v0'][mi]['fields'][fi]
                for r in c['rows'].get(spec.table_name(a, m), []):
                    r.pop(spec.column_name(f), None)
                yield c
