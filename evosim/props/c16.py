"""C16 - evolving one database only applies what is routed to that database.

Two SQLite files and a generated router splitting the models of an app every
possible way; evolutions touch models on both sides; each database is
evolved in turn (both orders are schedules).  Observed per file with sqlite3:
tables, schema vs the fresh-schema oracle of the models routed there, stored
signature, and byte-identity of the file that was NOT evolved.  Optionally a
statement failure is injected while evolving one database.
"""
import copy
import json

from evosim import gen, history, project as proj, rowmodel, runner, \
    scenarios, snapshot, spec
from evosim.engine import violation
from evosim.props import common, c03

ID = 'C16'
LEVEL = 'exploration'
LEVEL_TEXT = ('seeded search over model splits x evolutions x evolve order x '
              'one injected failure; every run a real process against two '
              'real SQLite files; the non-evolved file is compared byte for '
              'byte')
TECHNIQUE = ('deterministic simulation with two storage nodes (database '
             'files) and a generated router; order of evolving the databases '
             'is the schedule; sql_error@k on one alias')
PLAN = {
    'quick': {'count': 360, 'max_wall': 170, 'shrink_budget': 20,
              'shrink_wall': 100},
    'thorough': {'count': 5000, 'max_wall': 1500, 'shrink_budget': 50,
                 'shrink_wall': 300},
}
RULE_TEXT = (
    'scenario = app with 2-3 models (relations only within one side of the '
    'split), a seeded non-trivial split default/other, 1-4 mutations (strict '
    '"simple" configuration in 60%: add / delete / change fields, new '
    'models; otherwise the full C01 mix incl. RenameModel / DeleteModel / '
    'ChangeMeta), evolve order drawn from both permutations, 25% with an '
    'injected failure. Non-trivial = both databases executed evolution SQL '
    'or a fault fired; distinct = digest of split + mutation kinds + order.')
RULE_TEXT += ' 1 in 8 scenarios ship the evolution as raw SQL files per database (evolutions/<alias>_<label>.sql).'
RULE_TEXT += ' Every third project uses a router that only decides allow_migrate().'
ASSUMPTIONS = [
    'models unknown to the router (contenttypes, django_evolution) are '
    'allowed on both databases, as with any Django router returning None',
    'schema per database is judged like C01 against models routed there',
]


def generate(seed, index, tier):
    scn = _generate(seed, index, tier)
    # every third project uses a router that only has an opinion about
    # allow_migrate(): reads and writes fall back to the default database
    scn['project']['router_migrate_only'] = index % 3 == 1
    return scn


def _generate(seed, index, tier):
    rng = scenarios.derive_rng(seed, ID, index)
    if index % 8 == 7:
        return _gen_sqlfile(rng)
    if index % 8 == 3:
        return _gen_lone_delete(rng)
    simple = rng.random() < 0.6
    for attempt in range(30):
        if simple:
            cfg = history.simple_config(rng)
        else:
            cfg = gen.swarm_config(rng)
            cfg['meta'] = []
            cfg['kinds'] = [k for k in cfg['kinds']
                            if k != 'PositiveInteger'] or ['Integer']
        cfg['max_models'] = rng.choice([2, 3])
        cfg['relations'] = False
        cfg['m2m'] = False
        g = gen.Gen(rng, cfg)
        st0 = g.gen_state(['va'])
        models = st0['apps']['va']['models']
        if len(models) < 2:
            continue
        rows = g.gen_rows(st0)
        n = rng.choice([1, 2, 2, 3, 4])
        ops = dict(cfg['ops'])
        ops['NewModel'] = 1
        muts, st1, _ = g.gen_sequence(st0, 'va', n, rows, ops)
        if not muts:
            continue
        break
    names = set(m['name'] for m in models)
    for m in st1['apps']['va']['models']:
        names.add(m['name'])
    for mu in muts:
        if mu['op'] == 'RenameModel':
            names.add(mu['new'])
    names = sorted(names)
    # a split where both sides get at least one V0 model; renamed models
    # stay on their side
    side = {}
    v0names = [m['name'] for m in models]
    while True:
        for nme in v0names:
            side[nme] = rng.choice(['default', 'other'])
        if len(set(side.values())) == 2:
            break
    for mu in muts:
        if mu['op'] == 'RenameModel':
            side[mu['new']] = side.get(mu['old'], 'default')
        if mu['op'] == 'NewModel':
            side[mu['model']['name']] = rng.choice(['default', 'other'])
    router = {'va.%s' % k.lower(): v for k, v in side.items()}
    project = {'apps': {'va': {'v0': models, 'steps': [
        {'evos': [{'label': 'e1', 'mutations': muts}]}]}},
        'order': ['va'], 'databases': ['default', 'other'],
        'router': router}
    scn = {'project': project, 'rows': rows, 'simple': simple,
           'order': rng.choice([['default', 'other'], ['other', 'default']]),
           'side': side}
    if rng.random() < 0.25:
        scn['fault'] = {'alias': rng.choice(['default', 'other']),
                        'kind': 'sql_error', 'k': rng.randrange(0, 5)}
    return scn


def _gen_lone_delete(rng):
    """The evolution deletes every model the app has on one side of the
    split (and changes something on the other side): evolving the side that
    loses its models must drop their tables and signature entries there."""
    intf = lambda n: {'name': n, 'kind': 'Integer', 'attrs': {'null': True}}
    names = ['Item', 'Item2', 'Zed'][:rng.choice([2, 3])]
    models = [{'name': n, 'fields': [intf('a')], 'meta': {}} for n in names]
    lone_side = rng.choice(['default', 'other'])
    rest_side = 'other' if lone_side == 'default' else 'default'
    lone = rng.choice(names)
    side = {n: (lone_side if n == lone else rest_side) for n in names}
    keep = [n for n in names if n != lone]
    muts = [{'op': 'DeleteModel', 'model': lone},
            {'op': 'AddField', 'model': keep[0], 'field': intf('b')}]
    if rng.random() < 0.5:
        muts.reverse()
    project = {'apps': {'va': {'v0': models, 'steps': [
        {'evos': [{'label': 'e1', 'mutations': muts}]}]}},
        'order': ['va'], 'databases': ['default', 'other'],
        'router': {'va.%s' % k.lower(): v for k, v in side.items()}}
    rows = {'va_%s' % n.lower(): [{'id': 1, 'a': 1}] for n in names}
    return {'project': project, 'rows': rows, 'simple': True, 'side': side,
            'order': rng.choice([['default', 'other'], ['other', 'default']]),
            'family': 'lone_delete'}


def _gen_sqlfile(rng):
    """An evolution shipped as database-specific raw SQL files
    (evolutions/<alias>_<label>.sql): each database must execute its own
    file (or the python module when it has none), never the other one's."""
    intf = lambda n: {'name': n, 'kind': 'Integer', 'attrs': {'null': True}}
    models = [{'name': 'Item', 'fields': [intf('a')], 'meta': {}},
              {'name': 'Item2', 'fields': [intf('a')], 'meta': {}}]
    side = {'Item': 'default', 'Item2': 'other'}
    if rng.random() < 0.5:
        side = {'Item': 'other', 'Item2': 'default'}
    tbl = {side['Item']: 'va_item', side['Item2']: 'va_item2'}
    have = rng.choice([['default', 'other'], ['default'], ['other']])
    files = {a: 'CREATE INDEX "mk_%s" ON "%s" ("a");\n' % (a, tbl[a])
             for a in have}
    project = {'apps': {'va': {'v0': models, 'steps': [
        {'evos': [{'label': 'e1', 'mutations': [], 'sql_files': files}]}]}},
        'order': ['va'], 'databases': ['default', 'other'],
        'router': {'va.%s' % k.lower(): v for k, v in side.items()}}
    return {'kind': 'sqlfile', 'project': project, 'side': side,
            'have': have, 'simple': True, 'rows': {},
            'order': rng.choice([['default', 'other'], ['other', 'default']])}


def _exec_sqlfile(scn):
    P = scn['project']
    sts = proj.states(P)
    stats, viols = {'sql_file_scenarios': 1}, []
    detail = dict(kind='sqlfile', have=scn['have'], order=scn['order'],
                  side=scn['side'])
    res = {'violations': viols, 'stats': stats, 'nontrivial': True,
           'shape': spec.canon(['sqlfile', scn['have'], scn['order'],
                                sorted(scn['side'].items())]), 'runs': 0}
    aliases = ['default', 'other']
    with runner.Workspace(databases=aliases) as ws:
        proj.deploy(ws, P, 0, sts)
        for alias in aliases:
            r0 = ws.run('evolve', {'execute': True, 'database': alias})
            if r0.status != 'ok':
                raise runner.HarnessError('sqlfile install failed: %s' % (
                    (r0.exit or {}).get('msg'),))
        proj.deploy(ws, P, 1, sts)
        prev = {a: snapshot.snapshot(ws, a) for a in aliases}
        for alias in scn['order']:
            other = 'other' if alias == 'default' else 'default'
            r = ws.run('evolve', {'execute': True, 'database': alias})
            sa = snapshot.snapshot(ws, alias)
            so = snapshot.snapshot(ws, other)
            if r.status != 'ok':
                viols.append(violation(
                    'C16.run_failed_on_foreign_mutation', alias=alias,
                    status=r.status,
                    msg=((r.exit or {}).get('msg') or '')[:300], **detail))
                break
            marks = sorted(n for (typ, n, tb, sql) in sa['master']
                           if typ == 'index' and n.startswith('mk_'))
            want = ['mk_' + alias] if alias in scn['have'] else []
            if marks != want:
                viols.append(violation('C16.wrong_sql_file_executed',
                                       alias=alias, indexes=marks,
                                       expected=want, **detail))
            d = common.state_equal(prev[other], so)
            if d:
                viols.append(violation('C16.other_db_modified',
                                       evolved=alias, when='run',
                                       diffs=d[:4], **detail))
            if alias in scn['have'] and \
                    ('va', 'e1') not in common.labels_of(sa):
                viols.append(violation('C16.label_not_recorded',
                                       alias=alias, **detail))
            prev[alias], prev[other] = sa, so
        res['runs'] = ws.nruns
    res['sample'] = dict(detail)
    return res


def tables_by_side(state, side):
    out = {'default': set(), 'other': set()}
    for m in state['apps']['va']['models']:
        out[side.get(m['name'], 'default')].add(spec.table_name('va', m))
    return out


def execute(scn):
    if scn.get('kind') == 'sqlfile':
        return _exec_sqlfile(scn)
    P = scn['project']
    sts = proj.states(P)
    side = scn['side']
    stats, viols = {}, []
    tags = common.op_tags(P)
    feats = history.features(P['apps']['va']['steps'][0]['evos'][0]
                             ['mutations'])
    detail = dict(ops=tags, ops_str=' '.join(tags), simple=scn['simple'],
                  order=scn['order'],
                  router_migrate_only=bool(P.get('router_migrate_only')),
                  **feats)
    res = {'violations': viols, 'stats': stats, 'nontrivial': False,
           'shape': spec.canon([sorted(side.items()), tags, scn['order'],
                                bool(scn.get('fault'))]), 'runs': 0}
    aliases = ['default', 'other']
    with runner.Workspace(databases=aliases) as ws:
        proj.deploy(ws, P, 0, sts)
        for alias in aliases:
            r0 = ws.run('evolve', {'execute': True, 'database': alias})
            if r0.status != 'ok':
                viols.append(violation(
                    'C16.install_failed', alias=alias, status=r0.status,
                    msg=((r0.exit or {}).get('msg') or '')[:200], **detail))
                res['runs'] = ws.nruns
                return res
        t0 = tables_by_side(sts[0], side)
        import sqlite3
        try:
            for alias in aliases:
                rowmodel.load(ws.db_path(alias), {
                    t: v for t, v in scn['rows'].items() if t in t0[alias]})
        except (sqlite3.IntegrityError, sqlite3.OperationalError):
            stats['rows_rejected'] = 1
            res['runs'] = ws.nruns
            return res
        base = {a: snapshot.snapshot(ws, a) for a in aliases}
        for alias in aliases:
            wrong = sorted(t for t in t0['other' if alias == 'default'
                                         else 'default']
                           if t in base[alias]['tables'])
            if wrong:
                viols.append(violation('C16.table_on_wrong_db', alias=alias,
                                       tables=wrong, when='install',
                                       **detail))
        proj.deploy(ws, P, 1, sts)
        t1 = tables_by_side(sts[1], side)
        executed = 0
        fired = False
        prev = dict(base)
        for alias in scn['order']:
            other = 'other' if alias == 'default' else 'default'
            fault = scn.get('fault')
            if fault and fault['alias'] == alias:
                f = ws.run('evolve', {'execute': True, 'database': alias},
                           fault={'kind': 'sql_error', 'k': fault['k'],
                                  'scope': 'evo', 'alias': alias})
                if f.injected() is not None:
                    fired = True
                    stats['fired_sql_error'] = 1
                    from evosim.props import c07 as _c07
                    detail['fault_fired_on'] = alias
                    detail['fault_phase'] = _c07._phase(f)
                    so = snapshot.snapshot(ws, other)
                    if common.state_equal(prev[other], so):
                        viols.append(violation(
                            'C16.other_db_modified', evolved=alias,
                            when='failed_run', **detail))
                    sa = snapshot.snapshot(ws, alias)
                    from evosim.props import c07
                    if c07._phase(f) == 'bracket' and \
                            common.state_equal(prev[alias], sa):
                        viols.append(violation(
                            'C16.failed_run_changed_state', alias=alias,
                            statement=f.injected()['sql'][:100], **detail))
            r = ws.run('evolve', {'execute': True, 'database': alias})
            snap_a = snapshot.snapshot(ws, alias)
            snap_o = snapshot.snapshot(ws, other)
            if common.rejected_before_sql(r):
                stats['rejected_before_sql'] = 1
                res['runs'] = ws.nruns
                if scn.get('family') == 'lone_delete':
                    # valid by construction: a refusal is the routing gone
                    # wrong, not an invalid program
                    viols.append(violation(
                        'C16.run_failed_on_foreign_mutation', alias=alias,
                        status=r.status, family='lone_delete',
                        msg=((r.exit or {}).get('msg') or
                             r.stderr())[-300:], **detail))
                return res
            if r.status != 'ok':
                viols.append(violation(
                    'C16.run_failed_on_foreign_mutation', alias=alias,
                    status=r.status,
                    msg=((r.exit or {}).get('msg') or '')[:300], **detail))
                res['runs'] = ws.nruns
                return res
            if any(e.get('alias') == alias for e in r.writes()
                   if not e.get('book')):
                executed += 1
            wrong_alias = [e for e in r.writes() if e.get('alias') != alias]
            if wrong_alias:
                viols.append(violation(
                    'C16.statement_on_other_connection', evolved=alias,
                    first=wrong_alias[0]['sql'][:100], **detail))
            d = common.state_equal(prev[other], snap_o)
            if d:
                viols.append(violation('C16.other_db_modified',
                                       evolved=alias, when='run',
                                       diffs=d[:4], **detail))
            wrong = sorted(t for t in (t1[other] | t0[other])
                           if t in snap_a['tables']
                           and t not in (t1[alias] | t0[alias]))
            if wrong:
                viols.append(violation('C16.table_on_wrong_db', alias=alias,
                                       tables=wrong, when='run', **detail))
            sig = (c03.stored_apps(snap_a) or {}).get('va', {})
            foreign = sorted(mn for mn in (sig.get('models') or {})
                             if side.get(mn) == other)
            if foreign:
                viols.append(violation('C16.sig_contains_foreign_model',
                                       alias=alias, models=foreign,
                                       **detail))
            # what the evolution deletes on this side is really gone here
            left = sorted(t for t in t0[alias] - t1[alias]
                          if t in snap_a['tables'])
            if left:
                viols.append(violation('C16.deleted_table_left', alias=alias,
                                       tables=left, **detail))
            v1names = {m['name'] for m in sts[1]['apps']['va']['models']}
            stale = sorted(mn for mn in (sig.get('models') or {})
                           if mn not in v1names)
            if stale:
                viols.append(violation('C16.sig_keeps_deleted_model',
                                       alias=alias, models=stale, **detail))
            prev[alias] = snap_a
            prev[other] = snap_o
        res['runs'] = ws.nruns
        # schema per database vs fresh schema of the models routed there
        fresh_ws_snaps = {}
        with runner.Workspace(databases=aliases) as fw:
            proj.deploy(fw, P, 1, sts)
            fr = fw.run('fresh_schema', {'app_labels': ['va']})
            if fr.status == 'ok':
                for alias in aliases:
                    fresh_ws_snaps[alias] = snapshot.snapshot(fw, alias)
        res['runs'] += 1
        for alias in aliases:
            if alias not in fresh_ws_snaps:
                continue
            fresh = fresh_ws_snaps[alias]
            for t in sorted(t1[alias]):
                if t not in fresh['tables']:
                    continue
                if t not in prev[alias]['tables']:
                    viols.append(violation('C16.schema', alias=alias,
                                           table=t, kind='table_missing',
                                           what=[], **detail))
                    continue
                for dd in snapshot.diff_tables(prev[alias]['tables'][t],
                                               fresh['tables'][t]):
                    viols.append(violation(
                        'C16.schema', alias=alias, table=t, kind=dd[0],
                        what=[str(x) for x in dd[1:]], **detail))
        res['nontrivial'] = executed >= 2 or fired
        if executed >= 2:
            stats['both_sides_executed'] = 1
        res['sample'] = {'side': side, 'ops': tags, 'order': scn['order'],
                         'fault': scn.get('fault')}
    return res


def shrinks(scn):
    if scn.get('kind') == 'sqlfile':
        return
    if scn.get('fault'):
        c = copy.deepcopy(scn)
        c.pop('fault')
        yield c
    for c in scenarios.shrink_single_step(scn):
        # every model named by the shrunk scenario keeps its side
        yield c
