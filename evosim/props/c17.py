"""C17 - lifecycle signals are paired and tell the truth about the run.

An acceptor over the single event sequence of each run (signals interleaved
with the statement trace), applied to every run of generated histories:
fault-free, with nothing to do, and with an injected failure at EVERY write
statement index of the run (evolution SQL, model creation, deferred SQL and
bookkeeping writes).
"""
import copy
import re

from evosim import history, project as proj, rowmodel, runner, scenarios, \
    snapshot, spec
from evosim.engine import violation
from evosim.props import common, c03, c07, c08

ID = 'C17'
LEVEL = 'fault_enumeration'
LEVEL_TEXT = ('every write-statement index of every run of each generated '
              'history gets an injected failure (complete over fault points '
              'per run, sampled over histories); the acceptor also judges '
              'the fault-free and the nothing-to-do runs')
TECHNIQUE = ('deterministic simulation with fault injection: one event '
             'sequence per run from signal receivers and '
             'connection.execute_wrapper, checked by a signal-grammar '
             'acceptor; failure injected at every statement index')
PLAN = {
    'quick': {'count': 110, 'max_wall': 170, 'shrink_budget': 15,
              'shrink_wall': 120},
    'thorough': {'count': 2000, 'max_wall': 1700, 'shrink_budget': 40,
                 'shrink_wall': 300},
}
RULE_TEXT = (
    'program = history V0..Vn (1-3 apps, new models, 60% strict "simple" '
    'configuration) with a script of 2-5 upgrade runs (command / api / '
    'migrate drivers, including reruns with nothing to do); for every run, '
    'every write statement after `evolving` gets sql_error@k. evaluations = '
    'histories; distinct_nontrivial = distinct script/shape digests whose '
    'fault fired at least once; fault_points = (run, k) pairs executed.')
RULE_TEXT += ' A quarter of the histories are C10 hand-over histories with migrations, 60% of those with pre-existing tables of the migrations-only app.'
RULE_TEXT += ' 1 in 16 histories add an unmanaged model next to an ordinary one.'
ASSUMPTIONS = [
    'signals are emitted by Evolver.evolve(): "before any change" is judged '
    'from the start of the process up to `evolving`, not counting the '
    "creation of django-evolution's own bookkeeping tables on a virgin "
    'database (done in Evolver.__init__)',
    'payload vs SQL is judged at the granularity the signal has: tables of '
    'the carried app / models, not single statements',
]

OPEN = {'creating_models': 'created_models',
        'applying_evolution': 'applied_evolution',
        'applying_migration': 'applied_migration'}
CLOSE = {v: k for k, v in OPEN.items()}
TABLE_RE = re.compile(r'(?:TABLE|INTO|UPDATE|ON|FROM)\s+"([^"]+)"')


def accept(run, app_tables=None):
    """Violations of the signal grammar in one run.  app_tables: {app:
    set(tables)} of the generated apps (any version), for payload checks."""
    out = []
    status = run.status
    crashed = status == 'crashed'
    sigs = run.signals()
    names = [s['name'] for s in sigs]
    if names.count('evolving') > 1:
        out.append(('C17.evolving_twice', {}))
    evolving_seen = False
    outcome = []
    stack = []              # open brackets (name, payload)
    failed_inside = False   # an injected failure happened inside a bracket
    after_evolved = False
    created_region = None
    for e in run.events:
        if e['t'] == 'sql':
            if e['k'] != 'write':
                continue
            if e.get('inj'):
                if stack:
                    failed_inside = True
                continue
            if not evolving_seen and not e.get('book'):
                out.append(('C17.write_before_evolving',
                            {'sql': e['sql'][:100]}))
            if after_evolved and e.get('book') and (
                    'django_project_version' in e['sql']
                    or '"django_evolution"' in e['sql']):
                out.append(('C17.evolved_before_saved',
                            {'sql': e['sql'][:100]}))
            if stack and app_tables is not None:
                top = stack[-1]
                if top[0] == 'applying_evolution':
                    app = top[1].get('app')
                    tables = set(TABLE_RE.findall(e['sql']))
                    tables.discard('TEMP_TABLE')
                    mine = app_tables.get(app)
                    if mine is not None:
                        foreign = [t for t in tables if t not in mine
                                   and any(t in v for a2, v in
                                           app_tables.items() if a2 != app)]
                        if foreign:
                            out.append(('C17.payload_vs_sql', {
                                'bracket': 'applying_evolution', 'app': app,
                                'foreign_tables': foreign,
                                'sql': e['sql'][:100]}))
            continue
        if e['t'] != 'sig':
            continue
        n = e['name']
        if n == 'evolving':
            evolving_seen = True
        elif n in ('evolved', 'evolving_failed'):
            outcome.append(n)
            if n == 'evolved':
                after_evolved = True
            if stack and n == 'evolved':
                out.append(('C17.unpaired_applying',
                            {'open': [s[0] for s in stack], 'at': n}))
        elif n in OPEN:
            stack.append((n, e['p']))
        elif n in CLOSE:
            want = CLOSE[n]
            # creating_models are sent up-front for all apps, so match by
            # name + payload rather than strictly LIFO
            idx = None
            for i in range(len(stack) - 1, -1, -1):
                if stack[i][0] == want and stack[i][1] == e['p']:
                    idx = i
                    break
            if idx is None:
                out.append(('C17.unpaired_applying',
                            {'closing_without_opening': n, 'p': e['p']}))
            else:
                if failed_inside:
                    out.append(('C17.applied_after_failure',
                                {'name': n, 'p': e['p']}))
                del stack[idx]
    if evolving_seen and not crashed:
        if len(outcome) == 0:
            out.append(('C17.outcome_missing', {'status': status}))
        elif len(outcome) > 1:
            out.append(('C17.both_outcomes', {'outcome': outcome}))
        elif outcome[0] == 'evolved' and status != 'ok':
            out.append(('C17.evolved_but_raised', {'status': status}))
        elif outcome[0] == 'evolving_failed' and status == 'ok':
            out.append(('C17.failed_but_returned', {}))
    if not evolving_seen and outcome:
        out.append(('C17.outcome_without_evolving', {'outcome': outcome}))
    if stack and status == 'ok':
        out.append(('C17.unpaired_applying',
                    {'open': [[s[0], s[1]] for s in stack], 'at': 'exit'}))
    lock = (run.exit or {}).get('evolve_lock')
    if run.exit is not None and lock not in (None, 0):
        out.append(('C17.lock_leak', {'lock': lock}))
    return out


def payload_truth(run, pre, post, P, cur_v):
    """Payload vs what was recorded / created, for a completed run."""
    out = []
    if run.status != 'ok':
        return out
    pre_labels = set(common.labels_of(pre))
    post_labels = set(common.labels_of(post))
    # tables created outside applying_migration brackets (a migration's
    # CreateModel is announced by applying_migration, not creating_models)
    created_tables = set()
    in_migration = 0
    for e in run.events:
        if e['t'] == 'sig':
            if e['name'] == 'applying_migration':
                in_migration += 1
            elif e['name'] == 'applied_migration':
                in_migration -= 1
        elif e['t'] == 'sql' and e['k'] == 'write' and not e.get('inj') \
                and not in_migration:
            m = re.match(r'CREATE TABLE "([^"]+)"', e['sql'])
            if m and m.group(1) != 'TEMP_TABLE':
                created_tables.add(m.group(1))
    carried_models = {}
    for s in run.signals():
        if s['name'] == 'applying_evolution':
            for l in s['p'].get('labels') or []:
                key = (s['p']['app'], l)
                if key in pre_labels:
                    out.append(('C17.payload_vs_sql', {
                        'bracket': 'applying_evolution',
                        'already_recorded': list(key)}))
                if key not in post_labels:
                    out.append(('C17.payload_vs_sql', {
                        'bracket': 'applying_evolution',
                        'not_recorded_after': list(key)}))
        if s['name'] == 'creating_models':
            carried_models.setdefault(s['p']['app'], set()).update(
                s['p'].get('models') or [])
        if s['name'] == 'applying_migration':
            app, name = s['p']['migration']
            rows = post['book'].get('django_migrations') or []
            if not any(r[1] == app and r[2] == name for r in rows):
                out.append(('C17.payload_vs_sql', {
                    'bracket': 'applying_migration',
                    'not_recorded_after': [app, name]}))
    # models carried by creating_models vs tables really created
    sts = proj.states(P)
    st = sts[cur_v]
    for app, names in carried_models.items():
        if app not in st['apps']:
            continue
        for name in sorted(names):
            m = spec.find_model(st['apps'][app]['models'], name)
            if m is None:
                continue
            t = spec.table_name(app, m)
            if t not in created_tables:
                out.append(('C17.payload_vs_sql', {
                    'bracket': 'creating_models', 'app': app,
                    'model': name, 'table_not_created': t}))
    for app in st['apps']:
        for m in st['apps'][app]['models']:
            t = spec.table_name(app, m)
            if t in created_tables and m['name'] not in carried_models.get(
                    app, set()):
                out.append(('C17.payload_vs_sql', {
                    'bracket': 'creating_models', 'app': app,
                    'model': m['name'], 'created_but_not_carried': t}))
    return out


def _gen_handover(rng, seed, index, tier):
    """C10 history (evolutions -> migrations hand-over, migration-only and
    evolution-only neighbours), optionally with the tables of the
    migration-only app already present before the first run (a legacy
    deployment: Django fakes its initial migration)."""
    from evosim.props import c10
    # (C10's own dedicated family at index % 25 == 24 has another shape)
    c = c10.generate(seed, index + 1 if index % 25 == 24 else index, tier)
    P = c['project']
    start = c['start']
    script = []
    first = c['final_version'] if start == 'virgin' else start
    script.append({'do': 'deploy', 'v': first})
    legacy = 'vc' in P['apps'] and rng.random() < 0.6
    if legacy:
        script.append({'do': 'legacy_tables', 'apps': ['vc']})
    script.append({'do': 'run', 'driver': 'command'})
    if first != c['final_version']:
        script.append({'do': 'deploy', 'v': c['final_version']})
        script.append({'do': 'run', 'driver': rng.choice(
            ['command', 'command', 'api'])})
    script.append({'do': 'run', 'driver': 'command'})
    n = proj.n_versions(P)
    return {'project': P, 'script': script, 'max_k': 40, 'simple': True,
            'kind': 'handover', 'legacy_tables': legacy,
            'rows': {}, 'rows_by_version': [{} for _ in range(n)]}


def _gen_unmanaged(rng):
    """A release adds two models to an installed app, one of them with
    Meta.managed = False: whatever creating_models / created_models carry
    must be what was really created between them."""
    intf = lambda n: {'name': n, 'kind': 'Integer', 'attrs': {'null': True}}
    item = {'name': 'Item', 'fields': [intf('a')], 'meta': {}}
    part = {'name': 'Part', 'fields': [intf('b')], 'meta': {}}
    audit = {'name': 'Zed', 'fields': [intf('z')],
             'meta': {'managed': False}}
    new = [part, audit] if rng.random() < 0.5 else [audit, part]
    muts = [{'op': 'NewModel', 'model': m} for m in new]
    if rng.random() < 0.5:
        muts.append({'op': 'AddField', 'model': 'Item', 'field': intf('c')})
    project = {'apps': {'va': {'v0': [item], 'steps': [
        {'evos': [{'label': spec.evo_label(0), 'mutations': muts}]}]}},
        'order': ['va'], 'databases': ['default']}
    fresh = rng.random() < 0.4
    script = ([{'do': 'deploy', 'v': 1}, {'do': 'run', 'driver': 'command'}]
              if fresh else
              [{'do': 'deploy', 'v': 0}, {'do': 'run', 'driver': 'command'},
               {'do': 'deploy', 'v': 1},
               {'do': 'run', 'driver': rng.choice(['command', 'api'])}])
    script.append({'do': 'run', 'driver': 'command'})
    return {'project': project, 'script': script, 'max_k': 30,
            'simple': True, 'kind': 'unmanaged', 'rows': {},
            'rows_by_version': [{}, {}]}


def generate(seed, index, tier):
    rng = scenarios.derive_rng(seed, ID, index)
    if index % 4 == 3:
        return _gen_handover(rng, seed, index, tier)
    if index % 16 == 6:
        return _gen_unmanaged(rng)
    simple = rng.random() < 0.6
    two = rng.random() < 0.5
    h = history.gen_history(rng, simple=simple, two_apps=two,
                            shared_labels=two and index % 3 == 0,
                            nsteps=rng.choice([1, 2, 2, 3]))
    if not simple:
        pass
    P = h['project']
    n = proj.n_versions(P) - 1
    script = [{'do': 'deploy', 'v': 0}, {'do': 'run', 'driver': 'command'}]
    v = 0
    while v < n:
        v = min(n, v + rng.choice([1, 1, 2]))
        script.append({'do': 'deploy', 'v': v})
        script.append({'do': 'run', 'driver': rng.choice(
            ['command', 'command', 'api', 'migrate'])})
        if rng.random() < 0.3:
            script.append({'do': 'run', 'driver': rng.choice(
                ['command', 'api'])})
    h['script'] = script
    h['max_k'] = 60
    return h


def all_app_tables(P, sts):
    out = {}
    for st in sts:
        for a in st['apps']:
            out.setdefault(a, set()).update(common.app_tables(st, [a]))
    return out


def execute(scn):
    P = scn['project']
    sts = proj.states(P)
    stats, viols = {}, []
    res = {'violations': viols, 'stats': stats, 'nontrivial': False,
           'shape': spec.canon([[(s['do'], s.get('driver'))
                                 for s in scn['script']],
                                [[m['op'] for e in step['evos']
                                  for m in e['mutations']]
                                 for step in P['apps']['va']['steps']]]),
           'runs': 0}
    tables = all_app_tables(P, sts)
    feats = history.features(history.mutations_between(P, 0, len(sts) - 1))
    fired = 0
    rows_loaded = False
    with runner.Workspace() as ws:
        cur_v = None
        run_idx = 0
        for si, step in enumerate(scn['script']):
            if step['do'] == 'deploy':
                proj.deploy(ws, P, step['v'], sts,
                            clean=scn.get('kind') == 'handover')
                cur_v = step['v']
                continue
            if step['do'] == 'legacy_tables':
                lt = ws.run('fresh_schema', {'app_labels': step['apps']})
                if lt.status != 'ok':
                    raise runner.HarnessError('legacy tables: %s' % (
                        (lt.exit or {}).get('msg'),))
                stats['legacy_tables'] = 1
                continue
            run_idx += 1
            ws.fork_db('pre')
            pre = snapshot.snapshot(ws)
            clock0 = ws.clock_us
            u = history.upgrade(ws, step['driver'], scope='all')
            post = snapshot.snapshot(ws)
            base = dict(run=run_idx, driver=step['driver'],
                        simple=scn['simple'], **feats)
            for rule, d in accept(u, tables) + payload_truth(
                    u, pre, post, P, cur_v):
                det = dict(base, fault=None, status=u.status)
                det.update(d)
                viols.append(violation(rule, **det))
            if not u.writes():
                stats['nothing_to_do_runs'] = stats.get(
                    'nothing_to_do_runs', 0) + 1
            n = min(u.eligible_count(), scn.get('max_k', 60))
            for k in range(n):
                ws.use_db('pre')
                ws.clock_us = clock0
                f = history.upgrade(ws, step['driver'], scope='all', fault={
                    'kind': 'sql_error', 'k': k, 'scope': 'all'})
                inj = f.injected()
                if inj is None:
                    stats['fault_not_reached'] = stats.get(
                        'fault_not_reached', 0) + 1
                    continue
                fired += 1
                scope = 'book' if inj.get('book') else 'evo'
                stats['fired_sql_error_' + scope] = stats.get(
                    'fired_sql_error_' + scope, 0) + 1
                for rule, d in accept(f, tables):
                    det = dict(base, fault='sql_error', k=k, scope=scope,
                               phase=c07._phase(f),
                               statement=inj['sql'][:100], status=f.status)
                    det.update(d)
                    viols.append(violation(rule, **det))
                if f.status == 'ok':
                    viols.append(violation(
                        'C17.failure_swallowed', fault='sql_error', k=k,
                        scope=scope, phase=c07._phase(f),
                        statement=inj['sql'][:100], **base))
            # continue the history from the uninterrupted outcome
            ws.use_db('pre')
            ws.clock_us = clock0
            u2 = history.upgrade(ws, step['driver'])
            if not rows_loaded and u2.status == 'ok':
                import sqlite3
                try:
                    rowmodel.load(ws.db_path(),
                                  scn['rows_by_version'][cur_v])
                except (sqlite3.IntegrityError, sqlite3.OperationalError):
                    pass
                rows_loaded = True
            if u2.status != 'ok':
                stats['history_stopped_run_failed'] = 1
                break
        res['runs'] = ws.nruns
    stats['fault_points'] = fired
    if scn.get('kind') == 'handover':
        stats['handover_histories'] = 1
    res['nontrivial'] = fired > 0
    res['sample'] = {'script': scn['script'], 'apps': P['order'],
                     'fault_points': fired}
    return res


def shrinks(scn):
    return c08.shrinks(scn)


def extra_evidence(stats):
    return {'fault_kinds_fired': {k: v for k, v in stats.items()
                                  if k.startswith('fired_')},
            'fault_points': stats.get('fault_points', 0)}
