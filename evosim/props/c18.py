"""C18 - batched changes rewrite each table once, never more than unbatched.

Uses C03's twin continuations: the optimised single run vs one run per
mutation, counting CREATE TABLE "TEMP_TABLE" ... RENAME TO "<t>" per table on
the statement traces.
"""
import copy

from evosim import gen, scenarios, spec
from evosim.engine import violation
from evosim.props import c03

ID = 'C18'
LEVEL = 'exploration'
LEVEL_TEXT = ('seeded search over generated mutation sequences; the number of '
              'table rebuilds is read off the real statement trace of the '
              'optimised run and of the one-mutation-per-run continuation')
TECHNIQUE = ('deterministic simulation: twin continuations from a forked '
             'database, statement-trace counting via '
             'connection.execute_wrapper')
PLAN = {
    'quick': {'count': 320, 'max_wall': 170, 'shrink_budget': 25,
              'shrink_wall': 120},
    'thorough': {'count': 4000, 'max_wall': 1700, 'shrink_budget': 60,
                 'shrink_wall': 300},
}
RULE_TEXT = (
    'scenario = 50% C03 sequences, 50% dedicated "one model, 2-6 consecutive '
    'AddField / DeleteField / ChangeField (no type change, no db_column) / '
    'ChangeMeta (40% of them AddField / ChangeField only, where nothing is '
    'excused), spread over 1-4 evolution labels"; non-trivial = the '
    'one-at-a-time continuation rebuilt some table at least once and the '
    'optimised run was accepted; distinct = ordered mutation kinds + cut '
    'points digest.')
ASSUMPTIONS = [
    'a rebuild is identified by ALTER TABLE "TEMP_TABLE" RENAME TO "<t>" in '
    'the executed statement trace',
    'per-table comparison when the sequence has no RenameModel, totals '
    'otherwise',
]

MERGEABLE = {'AddField': 4, 'DeleteField': 3, 'ChangeField': 4,
             'ChangeMeta': 3, 'RenameField': 0, 'RenameModel': 0,
             'DeleteModel': 0, 'NewModel': 0, 'SQLMutation': 0}


# configuration outside the recorded mergeable_ops typo (no DeleteField, no
# ChangeMeta): every sequence must be carried out with one rebuild
ADD_CHANGE = {'AddField': 4, 'ChangeField': 6, 'DeleteField': 0,
              'ChangeMeta': 0, 'RenameField': 0, 'RenameModel': 0,
              'DeleteModel': 0, 'NewModel': 0, 'SQLMutation': 0}


def is_mergeable_only(scn, any_models=False):
    models = set()
    for m in scn['muts']:
        op = m['op']
        if op == 'AddField':
            if m['field']['kind'] == 'ManyToMany':
                return False
        elif op == 'DeleteField':
            mm = spec.find_model(scn['v0'], m['model'])
            f = spec.find_field(mm, m['name']) if mm else None
            if f is not None and f['kind'] == 'ManyToMany':
                return False
        elif op == 'ChangeField':
            if m.get('kind') or 'db_column' in (m.get('attrs') or {}) or \
                    'db_table' in (m.get('attrs') or {}):
                return False
        elif op != 'ChangeMeta':
            return False
        models.add(m['model'])
    return len(models) >= 1 if any_models else len(models) == 1


def generate(seed, index, tier):
    rng = scenarios.derive_rng(seed, ID, index)
    if rng.random() < 0.5:
        scn = c03.gen_scenario(rng)
    else:
        add_change = rng.random() < 0.4
        # (half of the add/change-only sequences interleave two models:
        # the optimiser regroups them per model, one rebuild per table)
        scn = c03.gen_scenario(rng, dense=False,
                               one_model=not (add_change and
                                              rng.random() < 0.5),
                               ops=ADD_CHANGE if add_change else MERGEABLE)
        # no type changes / db_column in the dedicated configuration
        scn['muts'] = [m for m in scn['muts']
                       if not (m['op'] == 'ChangeField' and (
                           m.get('kind') or 'db_column' in (m.get('attrs')
                                                            or {})))]
        n = len(scn['muts'])
        k = rng.choice([1, 2, 3, 4])
        scn['cuts'] = sorted(rng.sample(range(1, n), min(k - 1, n - 1))) \
            if n > 1 else []
    return scn


def execute(scn):
    stats, viols = {}, []
    tags = c03.mut_tags(scn)
    res = {'violations': viols, 'stats': stats, 'nontrivial': False,
           'shape': spec.canon([tags, scn.get('cuts')]), 'runs': 0}
    if not scn['muts']:
        stats['empty'] = 1
        return res
    try:
        c03.project_batched(scn)
        from evosim import project as proj
        for st in proj.states(c03.project_batched(scn)):
            spec.validate_state(st)
    except spec.SpecError:
        stats['invalid_after_filter'] = 1
        return res
    tw = c03.run_twins(scn)
    res['runs'] = tw.get('runs', 0)
    if not tw['ok']:
        stats['skipped'] = 1
        return res
    a = tw['a']
    if not tw['b_ok']:
        stats['stepwise_not_valid'] = 1
        return res
    if a.status != 'ok' or not (a.exit or {}).get('evolved'):
        stats['optimised_not_accepted'] = 1      # C03's business
        return res
    ca = c03.rebuild_counts(a)
    cb = {}
    for r in tw['b_runs']:
        for t, n in c03.rebuild_counts(r).items():
            cb[t] = cb.get(t, 0) + n
    if sum(cb.values()):
        res['nontrivial'] = True
        stats['unbatched_rebuilt'] = 1
    mergeable = is_mergeable_only(scn)
    if mergeable:
        stats['mergeable_only'] = 1
    detail = dict(ops=tags, ops_str=' '.join(tags), cuts=scn.get('cuts'),
                  optimised=ca, unbatched=cb, mergeable_only=mergeable)
    has_rename_model = any(m['op'] == 'RenameModel' for m in scn['muts'])
    if has_rename_model:
        if sum(ca.values()) > sum(cb.values()):
            viols.append(violation('C18.more_rebuilds_than_unbatched',
                                   table='*', **detail))
    else:
        for t in sorted(ca):
            if ca[t] > cb.get(t, 0):
                viols.append(violation('C18.more_rebuilds_than_unbatched',
                                       table=t, **detail))
    several = not mergeable and is_mergeable_only(scn, any_models=True)
    if several:
        stats['mergeable_only_several_models'] = 1
    if mergeable or several:
        for t in sorted(ca):
            if ca[t] > 1:
                viols.append(violation('C18.not_single_rebuild', table=t,
                                       count=ca[t], interleaved=several,
                                       **detail))
    if sum(ca.values()) < sum(cb.values()):
        stats['optimiser_saved_rebuilds'] = 1
    if len(scn.get('cuts') or []):
        stats['multi_label'] = 1
    res['sample'] = {'ops': tags, 'cuts': scn.get('cuts'),
                     'optimised_rebuilds': ca, 'unbatched_rebuilds': cb}
    return res


def shrinks(scn):
    return c03.shrinks(scn)
