"""Helpers shared by property modules."""
import copy
import re

from evosim import project as proj, runner, snapshot, spec, rowmodel

REJECT_PATTERNS = (
    'cannot resolve', 'do not completely resolve', 'Cannot',
    'cannot be', 'must be specified', 'already exists',
    'could not be simulated', 'Unable to',
)


def install(ws, project, sts, version=0, rows=None, **kw):
    """Deploy a version and install it fresh; optionally load rows."""
    proj.deploy(ws, project, version, sts)
    r = ws.run('evolve', {'execute': True}, **kw)
    if r.status == 'ok' and rows:
        import sqlite3
        try:
            rowmodel.load(ws.db_path(), rows)
        except (sqlite3.IntegrityError, sqlite3.OperationalError) as e:
            # generator rows rejected by the real schema (the row generator
            # is stricter than needed but not perfect): not a verdict
            r.rows_rejected = str(e)
    return r


def rebuilt_tables(run):
    """Tables rebuilt in a run: ALTER TABLE "TEMP_TABLE" RENAME TO "<t>"."""
    out = []
    for e in run.writes():
        m = re.match(r'ALTER TABLE "TEMP_TABLE" RENAME TO "([^"]+)"', e['sql'])
        if m and not e.get('inj'):
            out.append(m.group(1))
    return out


def op_tags(project, app='va', step=0):
    tags = []
    for evo in project['apps'][app]['steps'][step]['evos']:
        for m in evo['mutations']:
            t = m['op']
            if t == 'ChangeField':
                t += ':' + ','.join(sorted(m.get('attrs') or {}))
                if m.get('kind'):
                    t += ':type'
            elif t == 'ChangeMeta':
                t += ':' + m['prop']
            elif t == 'AddField':
                t += ':' + m['field']['kind']
            tags.append(t)
    return tags


def rejected_before_sql(run):
    """True when the command refused at the simulation gate: a command
    error and not a single write statement."""
    return run.status == 'command_error' and not run.writes()


def expected_index_origins(app, model):
    """[(cols tuple, unique, origin)] of every index the fresh schema of a
    model carries, from the spec (used to attribute a missing index)."""
    out = []
    cols = {f['name']: spec.column_name(f) for f in model['fields']
            if f['kind'] != 'ManyToMany'}
    cols['id'] = 'id'
    for f in model['fields']:
        if f['kind'] == 'ManyToMany':
            continue
        c = spec.column_name(f)
        a = f['attrs']
        if f['kind'] == 'OneToOne' or a.get('unique'):
            out.append(((c,), True, 'field_unique'))
        elif a.get('db_index', f['kind'] in spec.FK_KINDS):
            out.append(((c,), False, 'field_index'))
    meta = model.get('meta') or {}
    for t in meta.get('unique_together') or []:
        out.append((tuple(cols[n] for n in t), True, 'unique_together'))
    for t in meta.get('index_together') or []:
        out.append((tuple(cols[n] for n in t), False, 'index_together'))
    for ix in meta.get('indexes') or []:
        cs = []
        for n in ix.get('fields') or []:
            if n.startswith('-'):
                cs.append(cols[n[1:]] + ' DESC')
            else:
                cs.append(cols[n])
        out.append((tuple(cs), False, 'indexes'))
    for c in meta.get('constraints') or []:
        if c['kind'] == 'unique':
            out.append((tuple(cols[n] for n in c['fields']), True,
                        'constraints'))
    return out


def column_name_of(field):
    return spec.column_name(field)


def index_shadowed(app, model, cols):
    """True when the model spec declares two or more indexes over the same
    column list (ignoring ordering, uniqueness and conditions)."""
    def plain(cs):
        return tuple(c.replace(' DESC', '') for c in cs)
    n = sum(1 for (c, u, o) in expected_index_origins(app, model)
            if plain(c) == plain(cols))
    return n >= 2


def index_origin(app, model, cols, unique, extra=False):
    if cols and cols[0] == '<expr>':
        return 'unknown' if extra else 'indexes'
    for (c, u, origin) in expected_index_origins(app, model):
        if tuple(c) == tuple(cols) and bool(u) == bool(unique):
            return origin
    return 'unknown'


def model_by_table(state, table):
    for a in sorted(state['apps']):
        for m in state['apps'][a]['models']:
            if spec.table_name(a, m) == table:
                return a, m, None
            for f in m['fields']:
                if f['kind'] == 'ManyToMany' and \
                        spec.m2m_table(a, m, f) == table:
                    return a, m, f
    return None, None, None


def app_tables(state, apps):
    out = []
    for a in apps:
        if a not in state['apps']:
            continue
        for m in state['apps'][a]['models']:
            out.append(spec.table_name(a, m))
            for f in m['fields']:
                if f['kind'] == 'ManyToMany':
                    out.append(spec.m2m_table(a, m, f))
    return out


def explicit_names(model):
    out = set()
    meta = model.get('meta') or {}
    for ix in meta.get('indexes') or []:
        if ix.get('name'):
            out.add(ix['name'])
    for c in meta.get('constraints') or []:
        out.add(c['name'])
    return out


def fresh_snapshot(project, sts, version, apps=None):
    """Fresh-schema oracle: Django's own schema editor, empty database."""
    with runner.Workspace() as ws:
        installed = proj.deploy(ws, project, version, sts, apps=apps)
        labels = sorted(sts[version]['apps']) if apps is None else [
            a for a in sorted(sts[version]['apps'])
            if sts[version]['apps'][a].get('pkg', a) in apps]
        r = ws.run('fresh_schema', {'app_labels': labels})
        if r.status != 'ok':
            raise runner.HarnessError(
                'fresh-schema oracle failed: %s %s' % (
                    r.status, (r.exit or {}).get('msg')))
        return snapshot.snapshot(ws), r


def schema_diffs(snap, fresh, state, apps, state_before=None):
    """Structured differences between an evolved database and the fresh
    schema for the tables of the given apps."""
    out = []
    want = [t for t in app_tables(state, apps)]
    for t in sorted(set(want)):
        if t not in fresh['tables']:
            continue        # oracle did not create it (routed elsewhere)
        if t not in snap['tables']:
            out.append({'kind': 'table_missing', 'table': t, 'what': []})
            continue
        a, m, f = model_by_table(state, t)
        names = explicit_names(m) if (m is not None and f is None) else None
        if names:
            # only names the fresh schema really carries (e.g. a deferrable
            # UniqueConstraint creates nothing on SQLite)
            ft = fresh['tables'][t]
            have = {i['name'] for i in ft['indexes']} | {
                n for (n, _) in ft['checks'] if n} | {
                n for (n, _) in ft['uniques'] if n}
            names = names & have
        for d in snapshot.diff_tables(snap['tables'][t], fresh['tables'][t],
                                      names):
            rec = {'kind': d[0], 'table': t, 'what': list(d[1:])}
            if d[0] in ('index_missing', 'index_extra') and m is not None \
                    and f is None:
                rec['origin'] = index_origin(a, m, d[1], d[2],
                                             extra=d[0] == 'index_extra')
                rec['shadowed'] = index_shadowed(a, m, d[1])
                # a column with a CHECK of its own (PositiveIntegerField):
                # sqlite introspection reports the CHECK as a constraint
                # over that column
                plain = [c.replace(' DESC', '') for c in d[1]]
                checked = set()
                for fld in m['fields']:
                    if fld['kind'] == 'PositiveInteger':
                        checked.add(spec.column_name(fld))
                colof = {fld['name']: spec.column_name(fld)
                         for fld in m['fields']
                         if fld['kind'] != 'ManyToMany'}
                for c in (m.get('meta') or {}).get('constraints') or []:
                    if c['kind'] == 'check':
                        for n in spec.q_fields(c['check']):
                            if n in colof:
                                checked.add(colof[n])
                rec['on_check_column'] = any(c in checked for c in plain)
                kinds = [fld['kind'] for fld in m['fields']
                         if fld['kind'] != 'ManyToMany'
                         and spec.column_name(fld) in plain]
                rec['field_kinds'] = sorted(set(kinds))
            elif d[0] in ('check_missing', 'check_extra'):
                rec['origin'] = ('column_check' if re.match(
                    r'^\w+ >= 0$', d[1] or '') else 'constraints')
            elif d[0] == 'named_object_missing' and m is not None:
                meta = m.get('meta') or {}
                rec['origin'] = 'indexes' if any(
                    ix.get('name') == d[1]
                    for ix in meta.get('indexes') or []) else 'constraints'
                for (cs, u, o) in expected_index_origins(a, m):
                    pass
                colmap = {fld['name']: column_name_of(fld)
                          for fld in m['fields']
                          if fld['kind'] != 'ManyToMany'}
                colmap['id'] = 'id'
                for ix in (meta.get('indexes') or []):
                    if ix.get('name') == d[1] and ix.get('fields'):
                        cols = [colmap.get(n.lstrip('-'), n.lstrip('-'))
                                for n in ix['fields']]
                        rec['shadowed'] = index_shadowed(a, m, cols)
                for c in (meta.get('constraints') or []):
                    if c.get('name') == d[1] and c.get('fields'):
                        cols = [colmap.get(n, n) for n in c['fields']]
                        rec['shadowed'] = index_shadowed(a, m, cols)
            if state_before is not None and rec.get('shadowed') is False:
                # also shadowed when the model had two indexes over these
                # columns before the evolution
                a0, m0, f0 = model_by_table(state_before, t)
                if m0 is not None and f0 is None:
                    cols0 = None
                    if d[0] in ('index_missing', 'index_extra'):
                        cols0 = d[1]
                    elif d[0] == 'named_object_missing':
                        cm = {fld['name']: spec.column_name(fld)
                              for fld in m0['fields']
                              if fld['kind'] != 'ManyToMany'}
                        for ix in (m0.get('meta') or {}).get('indexes') or []:
                            if ix.get('name') == d[1] and ix.get('fields'):
                                cols0 = [cm.get(n.lstrip('-'), n.lstrip('-'))
                                         for n in ix['fields']]
                    if cols0 and index_shadowed(a0, m0, cols0):
                        rec['shadowed'] = True
            out.append(rec)
    return out


def bystander_diffs(before, after, tables):
    out = []
    for t in sorted(tables):
        b = [r for r in before['master'] if r[2] == t]
        a = [r for r in after['master'] if r[2] == t]
        if a != b:
            out.append({'table': t, 'kind': 'schema'})
        elif t in before['tables'] and \
                before['tables'][t]['rows'] != after['tables'][t]['rows']:
            out.append({'table': t, 'kind': 'rows'})
    return out


def state_equal(a, b, ignore_when=False):
    """'left exactly as it was': sqlite_master rows, all rows of all tables."""
    diffs = []
    if a['master'] != b['master']:
        am = {(r[0], r[1]): r for r in a['master']}
        bm = {(r[0], r[1]): r for r in b['master']}
        for k in sorted(set(am) | set(bm)):
            if am.get(k) != bm.get(k):
                diffs.append({'kind': 'master', 'object': list(k),
                              'a': (am.get(k) or [None] * 4)[3],
                              'b': (bm.get(k) or [None] * 4)[3]})
    for t in sorted(set(a['tables']) | set(b['tables'])):
        if t not in a['tables'] or t not in b['tables']:
            continue
        ra, rb = a['tables'][t]['rows'], b['tables'][t]['rows']
        if t == 'django_project_version' and ignore_when:
            oa, ob = a['tables'][t]['order'], b['tables'][t]['order']
            ra = [tuple(v for c, v in zip(oa, r) if c != 'when') for r in ra]
            rb = [tuple(v for c, v in zip(ob, r) if c != 'when') for r in rb]
        if t == 'django_migrations' and ignore_when:
            oa, ob = a['tables'][t]['order'], b['tables'][t]['order']
            ra = [tuple(v for c, v in zip(oa, r) if c != 'applied')
                  for r in ra]
            rb = [tuple(v for c, v in zip(ob, r) if c != 'applied')
                  for r in rb]
        if ra != rb:
            diffs.append({'kind': 'rows', 'table': t,
                          'a_count': len(ra), 'b_count': len(rb)})
    return diffs


def labels_of(snap):
    return sorted((r[2], r[3]) for r in snap['book'].get('django_evolution',
                                                         []))


def hint_tags(text):
    """op tags (as op_tags) of the mutations in a hinted evolution file."""
    tags = []
    m = re.search(r'MUTATIONS = \[\n(.*)\n\]', text, re.S)
    if not m:
        return tags
    for line in m.group(1).split('\n'):
        line = line.strip()
        mm = re.match(r'(\w+)\((.*)\),?$', line)
        if not mm:
            continue
        op, args = mm.group(1), mm.group(2)
        if op == 'ChangeField':
            attrs = sorted(set(re.findall(
                r'\b(db_column|db_index|db_table|decimal_places|max_digits|'
                r'max_length|null|unique)=', args)))
            t = op + ':' + ','.join(attrs)
            if 'field_type=' in args:
                t += ':type'
            tags.append(t)
        elif op == 'ChangeMeta':
            pm = re.match(r"'[^']*', '([^']*)'", args)
            tags.append(op + ':' + (pm.group(1) if pm else ''))
        elif op == 'AddField':
            km = re.search(r'models\.(\w+?)(Field|Key)\b', args)
            tags.append(op + ':' + (km.group(1) if km else ''))
        else:
            tags.append(op)
    return tags
