"""Row model: {table: [ {column: value} ]} advanced by the spec-level meaning
of each mutation (DESIGN 2.4), plus loading rows into / reading rows from a
database file with the stdlib sqlite3 module."""
import copy
import sqlite3

from evosim import spec


def apply(rows, before, after, app, mut):
    """rows after mutation. before/after: project states around it."""
    rows = copy.deepcopy(rows)
    op = mut['op']
    models_b = before['apps'][app]['models'] if app in before['apps'] else []

    def tbl(model_name, st=before, a=app):
        return spec.table_name(a, spec.find_model(st['apps'][a]['models'],
                                                  model_name))
    if op == 'AddField':
        m = spec.find_model(models_b, mut['model'])
        f = mut['field']
        if f['kind'] == 'ManyToMany':
            rows[spec.m2m_table(app, m, f)] = []
        else:
            col = spec.column_name(f)
            init = mut.get('initial')
            if isinstance(init, bool):
                init = int(init)
            for r in rows[tbl(mut['model'])]:
                r[col] = init
    elif op == 'DeleteField':
        m = spec.find_model(models_b, mut['model'])
        f = spec.find_field(m, mut['name'])
        if f['kind'] == 'ManyToMany':
            rows.pop(spec.m2m_table(app, m, f), None)
        else:
            col = spec.column_name(f)
            for r in rows[tbl(mut['model'])]:
                r.pop(col, None)
    elif op == 'RenameField':
        m = spec.find_model(models_b, mut['model'])
        f = spec.find_field(m, mut['old'])
        ma = spec.find_model(after['apps'][app]['models'], mut['model'])
        fa = spec.find_field(ma, mut['new'])
        if f['kind'] == 'ManyToMany':
            old_t, new_t = (spec.m2m_table(app, m, f),
                            spec.m2m_table(app, ma, fa))
            if old_t != new_t:
                rows[new_t] = rows.pop(old_t)
        else:
            oc, nc = spec.column_name(f), spec.column_name(fa)
            if oc != nc:
                for r in rows[tbl(mut['model'])]:
                    r[nc] = r.pop(oc)
    elif op == 'ChangeField':
        m = spec.find_model(models_b, mut['model'])
        f = spec.find_field(m, mut['name'])
        ma = spec.find_model(after['apps'][app]['models'], mut['model'])
        fa = spec.find_field(ma, mut['name'])
        if f['kind'] == 'ManyToMany':
            old_t, new_t = (spec.m2m_table(app, m, f),
                            spec.m2m_table(app, ma, fa))
            if old_t != new_t:
                rows[new_t] = rows.pop(old_t)
        else:
            oc, nc = spec.column_name(f), spec.column_name(fa)
            t = tbl(mut['model'])
            if oc != nc:
                for r in rows[t]:
                    r[nc] = r.pop(oc)
            if (mut.get('attrs') or {}).get('null') is False and \
                    mut.get('initial') is not None:
                init = mut['initial']
                if isinstance(init, bool):
                    init = int(init)
                for r in rows[t]:
                    if r[nc] is None:
                        r[nc] = init
    elif op == 'RenameModel':
        m = spec.find_model(models_b, mut['old'])
        old_t = spec.table_name(app, m)
        new_t = mut['db_table']
        if old_t != new_t:
            rows[new_t] = rows.pop(old_t)
    elif op == 'DeleteModel':
        m = spec.find_model(models_b, mut['model'])
        rows.pop(spec.table_name(app, m), None)
        for f in m['fields']:
            if f['kind'] == 'ManyToMany':
                rows.pop(spec.m2m_table(app, m, f), None)
    elif op == 'DeleteApplication':
        for m in models_b:
            rows.pop(spec.table_name(app, m), None)
            for f in m['fields']:
                if f['kind'] == 'ManyToMany':
                    rows.pop(spec.m2m_table(app, m, f), None)
    elif op == 'NewModel':
        m = mut['model']
        rows[spec.table_name(app, m)] = []
        for f in m['fields']:
            if f['kind'] == 'ManyToMany':
                rows[spec.m2m_table(app, m, f)] = []
    return rows


def load(path, rows):
    """INSERT the rows into the database file (driver side, no Django)."""
    con = sqlite3.connect(path)
    try:
        con.execute('PRAGMA foreign_keys = OFF')
        for t in sorted(rows):
            for r in rows[t]:
                cols = sorted(r)
                con.execute(
                    'INSERT INTO "%s" (%s) VALUES (%s)' % (
                        t, ', '.join('"%s"' % c for c in cols),
                        ', '.join('?' for _ in cols)),
                    [r[c] for c in cols])
        con.commit()
    finally:
        con.close()


def compare(expected, snap, type_changed=()):
    """Differences between the row model and a snapshot.  type_changed:
    set of (table, column) compared affinity-tolerantly."""
    out = []
    for t in sorted(expected):
        if t not in snap['tables']:
            out.append(('table_missing', t))
            continue
        ts = snap['tables'][t]
        order = ts['order']
        actual = {}
        for row in ts['rows']:
            d = dict(zip(order, row))
            actual[d.get('id')] = d
        exp = {r['id']: r for r in expected[t]}
        if sorted(actual, key=repr) != sorted(exp, key=repr):
            out.append(('row_set', t, sorted(exp), sorted(actual, key=repr)))
            continue
        for pk in sorted(exp):
            e, a = exp[pk], actual[pk]
            for c in sorted(e):
                if c not in a:
                    out.append(('column_missing', t, c))
                    break
                ev, av = e[c], a[c]
                if ev == av and type(ev) == type(av):
                    continue
                if ev == av and isinstance(ev, (int, float)) and \
                        isinstance(av, (int, float)):
                    continue
                if (t, c) in type_changed and ev is not None and \
                        av is not None and str(ev) == str(av):
                    continue
                out.append(('value', t, pk, c, ev, av))
    return out
