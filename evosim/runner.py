"""Driver side: workspaces (generated project tree + database files on tmpfs),
zygote management, run steps, db forking."""
import json
import os
import shutil
import subprocess
import sys
import tempfile

VERIF = os.path.dirname(os.path.dirname(os.path.abspath(__file__)))
PYTHON = os.environ.get('EVOSIM_PYTHON', '/venv/bin/python')
SHM = os.environ.get('EVOSIM_TMP', '/dev/shm')
PYC_PREFIX = os.path.join(SHM, 'evosim-pyc')


class HarnessError(Exception):
    pass


def prepare_bytecode(repo='/repo'):
    """Fill the bytecode cache under PYC_PREFIX for Django, sqlparse and the
    repo under test (up-to-date files are skipped).  Run once per check."""
    import django
    import sqlparse
    env = dict(os.environ)
    env['PYTHONPYCACHEPREFIX'] = PYC_PREFIX
    dirs = [os.path.dirname(django.__file__),
            os.path.dirname(sqlparse.__file__),
            os.path.join(repo, 'django_evolution')]
    subprocess.call([PYTHON, '-m', 'compileall', '-q', '-q', '-j', '0',
                     '-x', r'/(tests|test|locale|idlelib|lib2to3|site-packages)/'] + dirs,
                    env=env, stdout=subprocess.DEVNULL,
                    stderr=subprocess.DEVNULL)


class Zygote(object):
    def __init__(self, hashseed, repo):
        env = dict(os.environ)
        env['PYTHONHASHSEED'] = str(hashseed)
        env['PYTHONPYCACHEPREFIX'] = PYC_PREFIX
        env['EVOSIM_REPO'] = repo
        env.pop('DJANGO_SETTINGS_MODULE', None)
        self.proc = subprocess.Popen(
            [PYTHON, '-c',
             'import sys; sys.path.insert(0, %r); '
             'from evosim import zygote; zygote.serve()' % VERIF],
            stdin=subprocess.PIPE, stdout=subprocess.PIPE,
            env=env, cwd=SHM, text=True, bufsize=1)
        line = self.proc.stdout.readline()
        if not line:
            raise HarnessError('zygote failed to start')
        self.info = json.loads(line)

    def run(self, req, timeout):
        self.proc.stdin.write(json.dumps({'req': req, 'timeout': timeout})
                              + '\n')
        self.proc.stdin.flush()
        line = self.proc.stdout.readline()
        if not line:
            raise HarnessError('zygote died')
        return json.loads(line)

    def close(self):
        try:
            self.proc.stdin.write(json.dumps({'quit': True}) + '\n')
            self.proc.stdin.flush()
            self.proc.stdin.close()
            self.proc.wait(timeout=5)
        except Exception:
            try:
                self.proc.kill()
            except Exception:
                pass


class ZygotePool(object):
    """One zygote per hash seed, started lazily, owned by one worker."""

    def __init__(self, repo='/repo'):
        self.repo = repo
        self.z = {}

    def get(self, hashseed):
        z = self.z.get(hashseed)
        if z is None or z.proc.poll() is not None:
            z = Zygote(hashseed, self.repo)
            self.z[hashseed] = z
        return z

    def close(self):
        for z in self.z.values():
            z.close()
        self.z = {}


_POOL = None


def pool(repo=None):
    global _POOL
    repo = repo or os.environ.get('EVOSIM_REPO', '/repo')
    if _POOL is None or _POOL.repo != repo:
        if _POOL is not None:
            _POOL.close()
        _POOL = ZygotePool(repo)
    return _POOL


def close_pool():
    global _POOL
    if _POOL is not None:
        _POOL.close()
        _POOL = None


import hashlib

DIGEST = None     # set to a hashlib object to accumulate an execution digest


def digest_update(obj):
    if DIGEST is not None:
        DIGEST.update(json.dumps(obj, sort_keys=True,
                                 default=repr).encode('utf-8'))


class RunResult(object):
    def __init__(self, events, exit_code, timed_out, req):
        self.events = events
        self.exit_code = exit_code
        self.timed_out = timed_out
        self.req = req
        self.exit = None
        for e in events:
            if e['t'] == 'exit':
                self.exit = e

    @property
    def status(self):
        """ok | command_error | evolution_error | exception | crashed |
        harness_error | timeout"""
        if self.timed_out:
            return 'timeout'
        if self.exit is None:
            if self.exit_code == 70:
                return 'crashed'
            return 'harness_error'
        return self.exit['status']

    def sql(self, kinds=('write',)):
        return [e for e in self.events if e['t'] == 'sql' and e['k'] in kinds]

    def writes(self):
        return self.sql(('write',))

    def signals(self):
        return [e for e in self.events if e['t'] == 'sig']

    def probe(self, name):
        for e in self.events:
            if e['t'] == 'probe' and e['name'] == name:
                return e['p']
        return None

    def eligible_count(self):
        n = 0
        for e in self.events:
            if e['t'] == 'sql' and 'e' in e:
                n = max(n, e['e'] + 1)
        return n

    def injected(self):
        for e in self.events:
            if e['t'] == 'sql' and e.get('inj'):
                return e
        return None

    def stdout(self):
        return (self.exit or {}).get('stdout', '')

    def stderr(self):
        return (self.exit or {}).get('stderr', '')

    def digest_material(self):
        return json.dumps(self.events, sort_keys=True)


class Workspace(object):
    """A generated project tree and its database files, on tmpfs."""

    def __init__(self, repo=None, databases=('default',)):
        self.repo = repo or os.environ.get('EVOSIM_REPO', '/repo')
        self.dir = tempfile.mkdtemp(prefix='evosim-ws-', dir=SHM)
        self.project = os.path.join(self.dir, 'proj')
        self.dbdir = os.path.join(self.dir, 'db')
        os.mkdir(self.project)
        os.mkdir(self.dbdir)
        self.aliases = list(databases)
        # database alias that `evolve` targets and that snapshots / row
        # loading look at unless told otherwise
        self.main_alias = 'default'
        self.installed_apps = []
        self.router = False
        self.nruns = 0
        self.runs = []           # every RunResult, in order
        self.clock_us = 0        # simulated microseconds since epoch base

    # -- files -------------------------------------------------------------
    def write_files(self, files, clean=False):
        if clean:
            shutil.rmtree(self.project)
            os.mkdir(self.project)
        for rel in sorted(files):
            path = os.path.join(self.project, rel)
            os.makedirs(os.path.dirname(path), exist_ok=True)
            with open(path, 'w') as fp:
                fp.write(files[rel])

    def read_file(self, rel):
        with open(os.path.join(self.project, rel)) as fp:
            return fp.read()

    def exists(self, rel):
        return os.path.exists(os.path.join(self.project, rel))

    def project_digest_material(self):
        out = []
        for root, dirs, files in os.walk(self.project):
            dirs.sort()
            for f in sorted(files):
                if f.endswith('.pyc'):
                    continue
                p = os.path.join(root, f)
                with open(p) as fp:
                    out.append((os.path.relpath(p, self.project), fp.read()))
        return out

    # -- databases -----------------------------------------------------------
    def db_path(self, alias=None):
        alias = alias or self.main_alias
        return os.path.join(self.dbdir, '%s.sqlite3' % alias)

    def fork_db(self, tag):
        dst = os.path.join(self.dir, 'fork-' + tag)
        if os.path.exists(dst):
            shutil.rmtree(dst)
        shutil.copytree(self.dbdir, dst)

    def use_db(self, tag):
        src = os.path.join(self.dir, 'fork-' + tag)
        shutil.rmtree(self.dbdir)
        shutil.copytree(src, self.dbdir)

    def snapshot_copy(self):
        """Copy of the db dir (with any hot journal) for the snapshotter."""
        dst = tempfile.mkdtemp(prefix='snap-', dir=self.dir)
        os.rmdir(dst)
        shutil.copytree(self.dbdir, dst)
        return dst

    # -- running -------------------------------------------------------------
    def advance_clock(self, us):
        self.clock_us += us

    def clock_iso(self):
        import datetime
        base = datetime.datetime(2020, 1, 1, tzinfo=datetime.timezone.utc)
        return (base + datetime.timedelta(microseconds=self.clock_us)
                ).isoformat()

    def run(self, op, args=None, hashseed=0, fault=None, probes=None,
            timeout=60, installed_apps=None, scope=None, databases=None,
            **extra):
        self.nruns += 1
        trace = os.path.join(self.dir, 'trace-%04d.jsonl' % self.nruns)
        aliases = databases or self.aliases
        req = {
            'repo': self.repo,
            'project_dir': self.project,
            'installed_apps': (installed_apps if installed_apps is not None
                               else self.installed_apps),
            'databases': {a: self.db_path(a) for a in aliases},
            'router': self.router,
            'clock': self.clock_iso(),
            'trace': trace,
            'op': op,
            'args': dict(args or {}),
            'fault': fault,
            'probes': probes or [],
        }
        if op == 'evolve' and self.main_alias != 'default':
            req['args'].setdefault('database', self.main_alias)
        if scope:
            req['scope'] = scope
        req.update(extra)
        z = pool(self.repo).get(hashseed)
        reply = z.run(req, timeout)
        events = []
        if os.path.exists(trace):
            with open(trace) as fp:
                for line in fp:
                    line = line.strip()
                    if line:
                        events.append(json.loads(line))
            os.unlink(trace)
        res = RunResult(events, reply['exit'], reply['timeout'], req)
        self.runs.append(res)
        if DIGEST is not None:
            digest_update([e for e in events if e['t'] != 'tb'])
            digest_update([reply['exit'], reply['timeout'], op,
                           self.clock_iso(), hashseed])
        # each run consumes simulated time: one second by default
        self.clock_us += 1000000
        return res

    def close(self):
        shutil.rmtree(self.dir, ignore_errors=True)
        shutil.rmtree(PYC_PREFIX + self.dir, ignore_errors=True)

    def __enter__(self):
        return self

    def __exit__(self, *a):
        self.close()
