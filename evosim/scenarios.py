"""Scenario builders shared by several properties."""
import copy
import random

from evosim import gen, spec, project as proj, rowmodel


def derive_rng(seed, *parts):
    """Independent PRNG stream from (seed, parts): stable across processes."""
    import hashlib
    h = hashlib.sha256(repr((seed,) + parts).encode()).hexdigest()
    return random.Random(int(h[:16], 16))


def single_step(rng, cfg=None, two_apps=None, nmut=None, new_models=False,
                ops=None):
    """Project V0 -> V1 with one evolution (1-4 mutations, possibly split
    over several labels) on app 'va' (and optionally bystander/related app
    'vb'), plus rows at V0.  Returns scenario dict (JSON-able)."""
    cfg = cfg or gen.swarm_config(rng)
    g = gen.Gen(rng, cfg)
    if two_apps is None:
        two_apps = rng.random() < 0.35
    apps = ['vb', 'va'] if two_apps else ['va']
    st0 = g.gen_state(apps)
    rows = g.gen_rows(st0)
    n = nmut or rng.choice([1, 1, 2, 2, 3, 4])
    use_ops = dict(ops or cfg['ops'])
    if new_models:
        use_ops['NewModel'] = 2
    muts, st1, rows1 = g.gen_sequence(st0, 'va', n, rows, use_ops)
    # split over 1..k labels at random cut points
    evos = []
    k = rng.choice([1, 1, 1, 2, 3]) if len(muts) > 1 else 1
    cuts = sorted(rng.sample(range(1, len(muts)), min(k - 1, len(muts) - 1))
                  ) if len(muts) > 1 else []
    prev = 0
    for i, c in enumerate(cuts + [len(muts)]):
        if c > prev:
            evos.append({'label': spec.evo_label(i), 'mutations': muts[prev:c]})
        prev = c
    project = {
        'apps': {a: {'v0': st0['apps'][a]['models'], 'steps': []}
                 for a in apps},
        'order': apps,
        'databases': ['default'],
    }
    project['apps']['va']['steps'].append({'evos': evos})
    return {'project': project, 'rows': rows, 'cfg': cfg}


def shape_digest(scn):
    """Shape of a scenario: sorted multiset of mutation kinds x field kinds x
    Meta features (DESIGN 2.7)."""
    kinds = set()
    feats = set()
    ops = []
    p = scn['project']
    for a in p['apps']:
        for m in p['apps'][a]['v0']:
            for f in m['fields']:
                kinds.add(f['kind'])
            for k, v in (m.get('meta') or {}).items():
                if v:
                    feats.add(k)
        for step in p['apps'][a]['steps']:
            for evo in step['evos']:
                for mu in evo['mutations']:
                    tag = mu['op']
                    if mu['op'] == 'ChangeField':
                        tag += ':' + ','.join(sorted(mu.get('attrs') or {}))
                        if mu.get('kind'):
                            tag += ':type'
                    elif mu['op'] == 'ChangeMeta':
                        tag += ':' + mu['prop']
                    elif mu['op'] == 'AddField':
                        tag += ':' + mu['field']['kind']
                    ops.append(tag)
    return spec.canon([sorted(ops), sorted(kinds), sorted(feats)])


# ---------------------------------------------------------------------------
# structural shrinking of single-step scenarios
# ---------------------------------------------------------------------------

def _valid(scn):
    try:
        sts = proj.states(scn['project'])
        for st in sts:
            spec.validate_state(st)
    except (spec.SpecError, KeyError, ValueError, TypeError, AttributeError):
        return False
    return True


def _names_used(scn):
    """model and field names named by any mutation."""
    models, fields = set(), set()
    for a in scn['project']['apps'].values():
        for step in a['steps']:
            for evo in step['evos']:
                for m in evo['mutations']:
                    for k in ('model', 'old', 'new'):
                        if isinstance(m.get(k), str):
                            models.add(m[k])
                    for k in ('name', 'old', 'new'):
                        if isinstance(m.get(k), str):
                            fields.add(m[k])
                    if m['op'] == 'AddField':
                        fields.add(m['field']['name'])
                    if m['op'] == 'ChangeMeta':
                        for n in spec.fields_in_meta(
                                {'meta': {m['prop']: m['value']}}):
                            fields.add(n)
    return models, fields


def shrink_single_step(scn):
    """Yield smaller generator-valid variants of a scenario."""
    P = scn['project']
    # 1. drop one mutation
    for a in sorted(P['apps']):
        for si, step in enumerate(P['apps'][a]['steps']):
            for ei, evo in enumerate(step['evos']):
                for mi in range(len(evo['mutations'])):
                    c = copy.deepcopy(scn)
                    evs = c['project']['apps'][a]['steps'][si]['evos']
                    del evs[ei]['mutations'][mi]
                    if not evs[ei]['mutations']:
                        del evs[ei]
                    if not evs:
                        continue
                    if _valid(c):
                        yield c
    # 2. one label only
    for a in sorted(P['apps']):
        for si, step in enumerate(P['apps'][a]['steps']):
            if len(step['evos']) > 1:
                c = copy.deepcopy(scn)
                evs = c['project']['apps'][a]['steps'][si]['evos']
                merged = {'label': evs[0]['label'], 'mutations': []}
                for e in evs:
                    merged['mutations'] += e['mutations']
                c['project']['apps'][a]['steps'][si]['evos'] = [merged]
                yield c
    # 3. rows
    if any(scn.get('rows', {}).values()):
        c = copy.deepcopy(scn)
        c['rows'] = {t: [] for t in c['rows']}
        yield c
    # 4. drop the bystander app
    if 'vb' in P['apps'] and len(P['apps']) > 1:
        c = copy.deepcopy(scn)
        vb_tables = set()
        for m in P['apps']['vb']['v0']:
            vb_tables.add(spec.table_name('vb', m))
            for f in m['fields']:
                if f['kind'] == 'ManyToMany':
                    vb_tables.add(spec.m2m_table('vb', m, f))
        del c['project']['apps']['vb']
        c['project']['order'] = [x for x in c['project']['order']
                                 if x != 'vb']
        for t in vb_tables:
            c['rows'].pop(t, None)
        if _valid(c):
            yield c
    used_models, used_fields = _names_used(scn)
    # 5. drop an unused model / 6. unused field / 7. meta entry
    for a in sorted(P['apps']):
        for mi, m in enumerate(P['apps'][a]['v0']):
            if m['name'] not in used_models:
                c = copy.deepcopy(scn)
                del c['project']['apps'][a]['v0'][mi]
                c['rows'].pop(spec.table_name(a, m), None)
                for f in m['fields']:
                    if f['kind'] == 'ManyToMany':
                        c['rows'].pop(spec.m2m_table(a, m, f), None)
                if c['project']['apps'][a]['v0'] and _valid(c):
                    yield c
            for fi, f in enumerate(m['fields']):
                if f['name'] in used_fields:
                    continue
                if spec.fields_in_meta(m).get(f['name']):
                    continue
                c = copy.deepcopy(scn)
                del c['project']['apps'][a]['v0'][mi]['fields'][fi]
                t = spec.table_name(a, m)
                if f['kind'] == 'ManyToMany':
                    c['rows'].pop(spec.m2m_table(a, m, f), None)
                else:
                    for r in c['rows'].get(t, []):
                        r.pop(spec.column_name(f), None)
                if _valid(c):
                    yield c
            for key in sorted((m.get('meta') or {})):
                if key == 'db_table' or not m['meta'][key]:
                    continue
                for ei in range(len(m['meta'][key])):
                    c = copy.deepcopy(scn)
                    del c['project']['apps'][a]['v0'][mi]['meta'][key][ei]
                    if _valid(c):
                        yield c


def row_model_after(scn, app='va', step=0):
    """Row model after the step's mutations, plus the set of (table, column)
    whose declared type changed (compared affinity-tolerantly)."""
    P = scn['project']
    sts = proj.states(P)
    st = copy.deepcopy(sts[step])
    rows = copy.deepcopy(scn['rows'])
    changed = set()
    for evo in P['apps'][app]['steps'][step]['evos']:
        for m in evo['mutations']:
            new = spec.apply_mutation(st, app, m)
            rows = rowmodel.apply(rows, st, new, app, m)
            if m['op'] == 'ChangeField' and m.get('kind'):
                mm = spec.find_model(new['apps'][app]['models'], m['model'])
                ff = spec.find_field(mm, m['name'])
                changed.add((spec.table_name(app, mm), spec.column_name(ff)))
            st = new
    return rows, changed
