"""Self-tests of the simulator itself.

determinism: every (property, seed, index) scenario is executed twice - in
  fresh driver interpreters under different PYTHONHASHSEEDs and with
  different worker counts - and the SHA-256 over the scenario, every event of
  every run (statements with parameters, signals, stdout/stderr, exit
  records), every snapshot and the verdict must be identical.
mutants: every seeded change under /verif/seeded/<id>/ is applied to a
  scratch copy of the repository and the checks named in its meta.json must
  report a violation; the scratch copy is removed afterwards.
"""
import concurrent.futures
import json
import multiprocessing
import os
import shutil
import subprocess
import sys
import tempfile
import time

from evosim import engine, runner

ALL = ['C%02d' % i for i in range(1, 19)]
# indices at which the dedicated scenario families of the checks sit
# (index % 4 / 8 / 10 / 16 / 25 selectors in the generators)
EXTRA_INDICES = [5, 7, 9, 10, 23, 24]


def digests(props, seed, count, workers):
    os.environ['EVOSIM_DIGEST'] = '1'
    runner.prepare_bytecode(os.environ.get('EVOSIM_REPO', '/repo'))
    ctx = multiprocessing.get_context('fork')
    out = {}
    with concurrent.futures.ProcessPoolExecutor(
            max_workers=workers, mp_context=ctx,
            initializer=engine._worker_init,
            initargs=(os.environ.get('EVOSIM_REPO', '/repo'),)) as ex:
        futs = {}
        for pid in props:
            for i in sorted(set(list(range(count)) + EXTRA_INDICES)):
                futs[ex.submit(engine._work, pid, seed, i, 'quick',
                               os.environ.get('EVOSIM_REPO', '/repo'))] = \
                    (pid, i)
        for f in concurrent.futures.as_completed(futs):
            pid, i = futs[f]
            r = f.result()
            out['%s:%d' % (pid, i)] = r.get('digest') or ('ERROR ' + str(
                r.get('error'))[:200])
    return out


def determinism(args, repo):
    props = ALL
    count = 4
    seed = 1
    for a in args:
        if a.startswith('C'):
            props = a.split(',')
        elif a.startswith('n='):
            count = int(a[2:])
        elif a.startswith('seed='):
            seed = int(a[5:])
    t0 = time.time()
    results = []
    for (hs, workers) in ((0, 1 if count * len(props) <= 8 else 4), (7, 16)):
        env = dict(os.environ)
        env['PYTHONHASHSEED'] = str(hs)
        env['EVOSIM_REPO'] = repo
        p = subprocess.run(
            [runner.PYTHON, '-c',
             'import sys, json; sys.path.insert(0, %r); '
             'from evosim import selftest; '
             'print("DIGESTS " + json.dumps(selftest.digests(%r, %d, %d, %d),'
             ' sort_keys=True))' % (runner.VERIF, props, seed, count,
                                    workers)],
            env=env, cwd=runner.VERIF, stdout=subprocess.PIPE,
            stderr=subprocess.STDOUT, text=True)
        line = [l for l in p.stdout.splitlines() if l.startswith('DIGESTS ')]
        if not line:
            print(p.stdout[-2000:])
            print('determinism: driver run failed')
            return 2
        results.append(json.loads(line[-1][8:]))
    a, b = results
    bad = sorted(k for k in a if a[k] != b.get(k))
    errs = sorted(k for k in a if str(a[k]).startswith('ERROR'))
    print('determinism: %d scenarios x 2 executions (driver PYTHONHASHSEED '
          '0 vs 7, different worker counts), %d differing, %d errors, %.0fs'
          % (len(a), len(bad), len(errs), time.time() - t0))
    for k in bad[:20]:
        print('  DIFFERS %s %s %s' % (k, a[k][:16], str(b.get(k))[:16]))
    for k in errs[:5]:
        print('  ERROR %s %s' % (k, a[k]))
    return 1 if bad or errs else 0


def mutants(args, repo):
    seeded = os.path.join(runner.VERIF, 'seeded')
    ids = sorted(os.listdir(seeded)) if os.path.isdir(seeded) else []
    if args:
        ids = [i for i in ids if i in args]
    rc = 0
    for mid in ids:
        d = os.path.join(seeded, mid)
        meta = json.load(open(os.path.join(d, 'meta.json')))
        scratch = tempfile.mkdtemp(prefix='evosim-mut-', dir=runner.SHM)
        try:
            dst = os.path.join(scratch, 'repo')
            subprocess.check_call(['git', '-C', repo, 'worktree', 'add',
                                   '-q', '--detach', dst, 'HEAD'])
            subprocess.check_call(['git', '-C', dst, 'apply',
                                   os.path.join(d, 'patch.diff')])
            for chk in meta.get('caught_by', []):
                env = dict(os.environ)
                env['EVOSIM_NO_EVIDENCE'] = '1'
                cmd = [runner.PYTHON, '-m', 'evosim', 'check',
                       chk['property'], '--repo', dst, '--tier', 'quick']
                if chk.get('seed'):
                    cmd += ['--seed', str(chk['seed'])]
                p = subprocess.run(cmd, cwd=runner.VERIF, env=env,
                                   stdout=subprocess.PIPE,
                                   stderr=subprocess.STDOUT, text=True)
                caught = p.returncode == 1 and 'VIOLATION' in p.stdout
                print('mutant %s: check %s -> %s' % (
                    mid, chk['property'], 'CAUGHT' if caught else 'MISSED'))
                if not caught:
                    rc = 1
        finally:
            subprocess.call(['git', '-C', repo, 'worktree', 'remove',
                             '--force', os.path.join(scratch, 'repo')])
            shutil.rmtree(scratch, ignore_errors=True)
            shutil.rmtree(runner.PYC_PREFIX + scratch, ignore_errors=True)
    return rc


def main(what, args, repo):
    if what == 'determinism':
        return determinism(args, repo)
    if what == 'mutants':
        return mutants(args, repo)
    print('unknown selftest %r' % what)
    return 2
