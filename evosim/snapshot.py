"""Observer: reads a *copy* of the database directory with the stdlib sqlite3
module only (no Django, no django-evolution).  DESIGN.md 2.3."""
import os
import re
import shutil
import sqlite3

BOOK = ('django_project_version', 'django_evolution', 'django_migrations')


def _norm_sql(s):
    if s is None:
        return None
    return re.sub(r'\s+', ' ', s).strip()


def _split_top(s):
    """Split a CREATE TABLE body on top-level commas."""
    out, depth, cur, q = [], 0, [], None
    for ch in s:
        if q:
            cur.append(ch)
            if ch == q:
                q = None
            continue
        if ch in '"\'`':
            q = ch
            cur.append(ch)
        elif ch == '(':
            depth += 1
            cur.append(ch)
        elif ch == ')':
            depth -= 1
            cur.append(ch)
        elif ch == ',' and depth == 0:
            out.append(''.join(cur).strip())
            cur = []
        else:
            cur.append(ch)
    if cur:
        out.append(''.join(cur).strip())
    return out


def _balanced(s, start):
    """Text inside the parentheses opening at s[start] == '('."""
    depth, q = 0, None
    for i in range(start, len(s)):
        ch = s[i]
        if q:
            if ch == q:
                q = None
            continue
        if ch in '"\'':
            q = ch
        elif ch == '(':
            depth += 1
        elif ch == ')':
            depth -= 1
            if depth == 0:
                return s[start + 1:i], i
    return s[start + 1:], len(s)


def parse_checks(create_sql):
    """[(name|None, normalised expr)] of CHECK constraints (table-level and
    column-level) in a CREATE TABLE statement."""
    out = []
    if not create_sql:
        return out
    i = create_sql.find('(')
    body, _ = _balanced(create_sql, i)
    for part in _split_top(body):
        for m in re.finditer(r'(?:CONSTRAINT\s+("[^"]+"|\w+)\s+)?CHECK\s*\(',
                             part, re.I):
            expr, _ = _balanced(part, m.end() - 1)
            name = m.group(1)
            if name:
                name = name.strip('"')
            out.append((name, _norm_sql(expr)))
    return out


def parse_unique_constraints(create_sql):
    """Named table-level UNIQUE constraints: [(name, (cols...))]"""
    out = []
    if not create_sql:
        return out
    i = create_sql.find('(')
    body, _ = _balanced(create_sql, i)
    for part in _split_top(body):
        m = re.match(r'(?:CONSTRAINT\s+("[^"]+"|\w+)\s+)?UNIQUE\s*\(', part,
                     re.I)
        if m:
            cols, _ = _balanced(part, m.end() - 1)
            cols = tuple(c.strip().strip('"') for c in cols.split(','))
            name = m.group(1)
            out.append((name.strip('"') if name else None, cols))
    return out


def table_snapshot(con, table):
    cur = con.cursor()
    cols = {}
    order = []
    for cid, name, typ, notnull, dflt, pk in cur.execute(
            'PRAGMA table_info("%s")' % table):
        cols[name] = (typ.lower(), bool(notnull), bool(pk))
        order.append(name)
    indexes = []
    for row in cur.execute('PRAGMA index_list("%s")' % table).fetchall():
        seq, iname, unique, origin, partial = row[:5]
        icols = []
        for r in con.execute('PRAGMA index_xinfo("%s")' % iname):
            seqno, cid, cname, desc, coll, key = r
            if not key:
                continue
            if cname is None:
                cname = '<expr>'
            icols.append(cname + (' DESC' if desc else ''))
        sql = con.execute('SELECT sql FROM sqlite_master WHERE type=? AND '
                          'name=?', ('index', iname)).fetchone()
        sql = sql[0] if sql else None
        cond = None
        expr = None
        if sql:
            m = re.search(r'\bWHERE\b(.*)$', sql, re.I | re.S)
            if partial and m:
                cond = _norm_sql(m.group(1))
            if '<expr>' in ' '.join(icols):
                m2 = re.search(r'\bON\s+("[^"]+"|\w+)\s*\(', sql, re.I)
                if m2:
                    expr, _ = _balanced(sql, m2.end() - 1)
                    expr = _norm_sql(expr)
        indexes.append({'name': iname, 'cols': tuple(icols),
                        'unique': bool(unique), 'origin': origin,
                        'cond': cond, 'expr': expr})
    fks = []
    for r in cur.execute('PRAGMA foreign_key_list("%s")' % table):
        fks.append((r[3], r[2], r[4]))
    create = con.execute('SELECT sql FROM sqlite_master WHERE type=? AND '
                         'name=?', ('table', table)).fetchone()
    create = create[0] if create else None
    pkcols = [n for n in order if cols[n][2]]
    orderby = ', '.join('"%s"' % c for c in (pkcols or order))
    rows = [tuple(r) for r in con.execute(
        'SELECT %s FROM "%s" ORDER BY %s' % (
            ', '.join('"%s"' % c for c in order) or '*', table, orderby))]
    return {
        'columns': cols,
        'order': order,
        'indexes': indexes,
        'fks': sorted(fks),
        'checks': parse_checks(create),
        'uniques': parse_unique_constraints(create),
        'sql': create,
        'autoinc': bool(create and 'AUTOINCREMENT' in create.upper()),
        'rows': rows,
    }


def snapshot_file(path):
    con = sqlite3.connect(path)
    try:
        snap = {'tables': {}, 'master': [], 'book': {}}
        master = con.execute(
            'SELECT type, name, tbl_name, sql FROM sqlite_master '
            'ORDER BY type, name').fetchall()
        snap['master'] = [tuple(r) for r in master]
        for typ, name, tbl, sql in master:
            if typ == 'table' and not name.startswith('sqlite_'):
                snap['tables'][name] = table_snapshot(con, name)
        try:
            snap['fk_check'] = [tuple(r) for r in
                                con.execute('PRAGMA foreign_key_check')]
        except sqlite3.OperationalError as e:
            # "foreign key mismatch": a REFERENCES clause names a column
            # the parent table does not have
            snap['fk_check'] = [('error', str(e))]
        snap['integrity'] = [r[0] for r in
                             con.execute('PRAGMA integrity_check')]
        for t in BOOK:
            if t in snap['tables']:
                snap['book'][t] = snap['tables'][t]['rows']
        return snap
    finally:
        con.close()


def snapshot(ws, alias=None):
    """Snapshot what the next process would see: on a copy, opened
    read-write so that a hot journal left by a crashed child is rolled back
    exactly as the next opener would do."""
    alias = alias or getattr(ws, 'main_alias', 'default')
    d = ws.snapshot_copy()
    try:
        path = os.path.join(d, '%s.sqlite3' % alias)
        if not os.path.exists(path):
            return {'tables': {}, 'master': [], 'book': {}, 'fk_check': [],
                    'integrity': ['ok'], 'missing': True}
        snap = snapshot_file(path)
        from evosim import runner
        if runner.DIGEST is not None:
            runner.digest_update([snap['master'], sorted(
                (t, v['rows']) for t, v in snap['tables'].items())])
        return snap
    finally:
        shutil.rmtree(d, ignore_errors=True)


# ---------------------------------------------------------------------------
# comparison at the level the property statements list
# ---------------------------------------------------------------------------

def norm_cond(c):
    if c is None:
        return None
    c = c.replace('"', '')
    c = re.sub(r'\s+', ' ', c).strip()
    # strip redundant outer parentheses
    while c.startswith('(') and _balanced(c, 0)[1] == len(c) - 1:
        c = c[1:-1].strip()
    return c


def index_key(ix):
    return (ix['cols'] if not ix['expr'] else ('<expr>', norm_cond(ix['expr'])),
            ix['unique'], norm_cond(ix['cond']))


def schema_view(tsnap):
    """Comparable view of one table: columns as a dict, indexes as a sorted
    multiset of (cols, unique, cond), fks, checks (expr only + names)."""
    idx = sorted((index_key(i) for i in tsnap['indexes']), key=repr)
    return {
        'columns': dict(tsnap['columns']),
        'indexes': idx,
        'fks': sorted(tsnap['fks']),
        'checks': sorted((norm_cond(e) for (n, e) in tsnap['checks'])),
    }


def diff_tables(actual, expected, explicit_names=None):
    """List of structured differences between two table snapshots."""
    out = []
    a, e = schema_view(actual), schema_view(expected)
    for c in sorted(set(a['columns']) | set(e['columns'])):
        if c not in a['columns']:
            out.append(('column_missing', c, e['columns'][c]))
        elif c not in e['columns']:
            out.append(('column_extra', c, a['columns'][c]))
        elif a['columns'][c] != e['columns'][c]:
            out.append(('column_differs', c, a['columns'][c],
                        e['columns'][c]))
    ai, ei = list(a['indexes']), list(e['indexes'])
    for k in list(ai):
        if k in ei:
            ai.remove(k)
            ei.remove(k)
    for k in ei:
        out.append(('index_missing',) + k)
    for k in ai:
        out.append(('index_extra',) + k)
    if a['fks'] != e['fks']:
        for k in e['fks']:
            if k not in a['fks']:
                out.append(('fk_missing',) + tuple(k))
        for k in a['fks']:
            if k not in e['fks']:
                out.append(('fk_extra',) + tuple(k))
    ac, ec = list(a['checks']), list(e['checks'])
    for k in list(ac):
        if k in ec:
            ac.remove(k)
            ec.remove(k)
    for k in ec:
        out.append(('check_missing', k))
    for k in ac:
        out.append(('check_extra', k))
    # explicit names
    if explicit_names:
        anames = {i['name'] for i in actual['indexes']} | {
            n for (n, _) in actual['checks'] if n} | {
            n for (n, _) in actual['uniques'] if n}
        for n in sorted(explicit_names):
            if n not in anames:
                out.append(('named_object_missing', n))
    return out
