"""Spec language: models, mutations, Q-trees as plain JSON data; renderers to
Python source (models.py, evolution files); spec-level semantics of every
mutation (what V(i+1) is, given V(i) and a mutation).

Nothing here imports Django or django-evolution.  See DESIGN.md appendix A.
"""
import copy
import json

# kind -> (django class name under models., sqlite declared type as Django
#          creates it, or None when it depends on attrs)
KINDS = {
    'Char': 'CharField',
    'Text': 'TextField',
    'Integer': 'IntegerField',
    'BigInteger': 'BigIntegerField',
    'PositiveInteger': 'PositiveIntegerField',
    'Boolean': 'BooleanField',
    'Decimal': 'DecimalField',
    'DateTime': 'DateTimeField',
    'ForeignKey': 'ForeignKey',
    'OneToOne': 'OneToOneField',
    'ManyToMany': 'ManyToManyField',
    'Auto': 'AutoField',          # explicit primary keys (C11 pk_rename)
}
REL_KINDS = ('ForeignKey', 'OneToOne', 'ManyToMany')
FK_KINDS = ('ForeignKey', 'OneToOne')

# Attributes ChangeField may carry (appendix A).
CHANGEABLE = ('db_column', 'db_index', 'db_table', 'decimal_places',
              'max_digits', 'max_length', 'null', 'unique')


class SpecError(Exception):
    """The generator's own semantics reject this mutation (a generator or
    shrinker candidate that is not valid by construction)."""


def canon(obj):
    return json.dumps(obj, sort_keys=True, separators=(',', ':'))


# ---------------------------------------------------------------------------
# Names
# ---------------------------------------------------------------------------

def evo_label(i, prefix=''):
    """Label of the (i+1)-th evolution of an app.  The alphabetical order of
    the labels deliberately differs from their SEQUENCE order."""
    return '%s%se%d' % (prefix, 'mcxak'[i % 5], i + 1)


def table_name(app_label, model):
    """db_table of a model spec."""
    t = (model.get('meta') or {}).get('db_table')
    return t or '%s_%s' % (app_label, model['name'].lower())


def column_name(field):
    c = field['attrs'].get('db_column')
    if c:
        return c
    if field['kind'] in FK_KINDS:
        return field['name'] + '_id'
    return field['name']


def m2m_table(app_label, model, field):
    t = field['attrs'].get('db_table')
    return t or '%s_%s' % (table_name(app_label, model), field['name'])


def m2m_columns(app_label, model, field):
    """(from_column, to_column) of an auto-created through table."""
    src = model['name'].lower()
    dst = field['to'].split('.')[1].lower()
    if src == dst:
        # Django compares object names only (even across apps)
        return 'from_%s_id' % src, 'to_%s_id' % dst
    return src + '_id', dst + '_id'


def find_model(models, name):
    for m in models:
        if m['name'] == name:
            return m
    return None


def find_field(model, name):
    for f in model['fields']:
        if f['name'] == name:
            return f
    return None


# ---------------------------------------------------------------------------
# Rendering
# ---------------------------------------------------------------------------

def pyval(v):
    if isinstance(v, dict) and '__tuple__' in v:
        items = [pyval(x) for x in v['__tuple__']]
        if len(items) == 1:
            return '(%s,)' % items[0]
        return '(%s)' % ', '.join(items)
    if isinstance(v, dict) and '__raw__' in v:
        return v['__raw__']
    if isinstance(v, list):
        return '[%s]' % ', '.join(pyval(x) for x in v)
    if isinstance(v, dict):
        return '{%s}' % ', '.join('%s: %s' % (pyval(k), pyval(v[k]))
                                  for k in sorted(v))
    return repr(v)


def render_q(q, prefix='models.'):
    """Q-tree spec -> python expression text."""
    t = q['q']
    if t == 'leaf':
        return '%sQ(%s=%s)' % (prefix, q['k'], pyval(q['v']))
    if t == 'not':
        return '~(%s)' % render_q(q['c'], prefix)
    if t == 'wrap':
        # single-child nesting: Q(Q(...))
        return '%sQ(%s)' % (prefix, render_q(q['c'], prefix))
    if t == 'conn1':
        # one child under a non-default connector (built programmatically:
        # Q(*conditions, _connector=Q.OR) with a single condition)
        c = q['c']
        return "%sQ(%s=%s, _connector='%s')" % (
            prefix, c['k'], pyval(c['v']), q['op'].upper())
    op = {'and': ' & ', 'or': ' | ', 'xor': ' ^ '}[t]
    return '(%s)' % op.join(render_q(c, prefix) for c in q['c'])


def q_fields(q):
    if q['q'] == 'leaf':
        return {q['k'].split('__')[0]}
    if q['q'] in ('not', 'wrap', 'conn1'):
        return q_fields(q['c'])
    out = set()
    for c in q['c']:
        out |= q_fields(c)
    return out


def q_rename(q, old, new):
    q = copy.deepcopy(q)

    def walk(n):
        if n['q'] == 'leaf':
            parts = n['k'].split('__')
            if parts[0] == old:
                parts[0] = new
                n['k'] = '__'.join(parts)
        elif n['q'] in ('not', 'wrap', 'conn1'):
            walk(n['c'])
        else:
            for c in n['c']:
                walk(c)
    walk(q)
    return q


def render_expr(e, prefix='models.'):
    """Index expression spec -> python text.  e: {'f': name} |
    {'op': '+'|'-'|'*', 'l': e, 'r': e} | {'v': const}"""
    if 'f' in e:
        return '%sF(%s)' % (prefix, pyval(e['f']))
    if 'v' in e:
        return '%sValue(%s)' % (prefix, pyval(e['v']))
    return '%s %s %s' % (render_expr(e['l'], prefix), e['op'],
                         render_expr(e['r'], prefix))


def expr_fields(e):
    if 'f' in e:
        return {e['f']}
    if 'v' in e:
        return set()
    return expr_fields(e['l']) | expr_fields(e['r'])


def field_kwargs(field, for_mutation=False):
    """Ordered (key, python text) kwargs of a field."""
    out = []
    attrs = field['attrs']
    for k in sorted(attrs):
        if attrs[k] is None and not for_mutation:
            continue
        out.append((k, pyval(attrs[k])))
    return out


def render_field(field):
    kind = field['kind']
    cls = 'models.' + KINDS[kind]
    args = []
    if kind in REL_KINDS:
        args.append(pyval(field['to']))
    if kind in FK_KINDS:
        args.append('on_delete=models.CASCADE')
    for k, v in field_kwargs(field):
        args.append('%s=%s' % (k, v))
    if kind in REL_KINDS:
        args.append("related_name='+'")
    if 'default' in field:
        args.append('default=%s' % pyval(field['default']))
    return '%s = %s(%s)' % (field['name'], cls, ', '.join(args))


def render_index(ix):
    args = []
    for e in ix.get('expressions') or []:
        args.append(render_expr(e))
    if ix.get('fields'):
        args.append('fields=%s' % pyval(ix['fields']))
    if ix.get('name'):
        args.append('name=%s' % pyval(ix['name']))
    if ix.get('condition'):
        args.append('condition=%s' % render_q(ix['condition']))
    if ix.get('include'):
        args.append('include=%s' % pyval(ix['include']))
    return 'models.Index(%s)' % ', '.join(args)


def render_constraint(c):
    if c['kind'] == 'check':
        return 'models.CheckConstraint(name=%s, check=%s)' % (
            pyval(c['name']), render_q(c['check']))
    args = ['name=%s' % pyval(c['name']),
            'fields=%s' % pyval(c['fields'])]
    if c.get('condition'):
        args.append('condition=%s' % render_q(c['condition']))
    if c.get('deferrable'):
        args.append('deferrable=models.Deferrable.%s' % c['deferrable'])
    return 'models.UniqueConstraint(%s)' % ', '.join(args)


def render_model(model, explicit_app_label=None):
    lines = ['class %s(models.Model):' % model['name']]
    for f in model['fields']:
        lines.append('    ' + render_field(f))
    meta = model.get('meta') or {}
    mlines = []
    if explicit_app_label:
        mlines.append('app_label = %s' % pyval(explicit_app_label))
    if meta.get('db_table'):
        mlines.append('db_table = %s' % pyval(meta['db_table']))
    if meta.get('managed') is False:
        mlines.append('managed = False')
    for key in ('unique_together', 'index_together'):
        if meta.get(key):
            mlines.append('%s = [%s]' % (key, ', '.join(
                pyval({'__tuple__': t}) for t in meta[key])))
    if meta.get('indexes'):
        mlines.append('indexes = [%s]' % ', '.join(
            render_index(i) for i in meta['indexes']))
    if meta.get('constraints'):
        mlines.append('constraints = [%s]' % ', '.join(
            render_constraint(c) for c in meta['constraints']))
    if mlines:
        lines.append('')
        lines.append('    class Meta:')
        lines += ['        ' + l for l in mlines]
    if len(lines) == 1:
        lines.append('    pass')
    return '\n'.join(lines)


def render_models_py(models, explicit_app_label=None):
    out = ['from django.db import models', '', '']
    for m in models:
        out.append(render_model(m, explicit_app_label))
        out.append('')
        out.append('')
    return '\n'.join(out)


def _mut_field_kwargs(field):
    """kwargs text of AddField / ChangeField(type) for a field spec, the way
    a hint would state them."""
    args = []
    attrs = dict(field['attrs'])
    if field['kind'] in REL_KINDS:
        attrs['related_model'] = field['to']
    if field['kind'] == 'OneToOne':
        attrs['unique'] = True       # implied by the field class
    for k in sorted(attrs):
        args.append('%s=%s' % (k, pyval(attrs[k])))
    return args


def index_mutation_value(ix):
    d = {}
    if ix.get('fields'):
        d['fields'] = list(ix['fields'])
    if ix.get('name'):
        d['name'] = ix['name']
    if ix.get('condition'):
        d['condition'] = {'__raw__': render_q(ix['condition'])}
    if ix.get('expressions'):
        d['expressions'] = {'__tuple__': [
            {'__raw__': render_expr(e)} for e in ix['expressions']]}
    if ix.get('include'):
        d['include'] = list(ix['include'])
    return d


def constraint_mutation_value(c):
    if c['kind'] == 'check':
        return {'type': {'__raw__': 'models.CheckConstraint'},
                'name': c['name'],
                'check': {'__raw__': render_q(c['check'])}}
    d = {'type': {'__raw__': 'models.UniqueConstraint'},
         'name': c['name'],
         'fields': {'__tuple__': list(c['fields'])}}
    if c.get('condition'):
        d['condition'] = {'__raw__': render_q(c['condition'])}
    if c.get('deferrable'):
        d['deferrable'] = {'__raw__': 'models.Deferrable.%s'
                           % c['deferrable']}
    return d


def render_mutation(m):
    op = m['op']
    if op == 'AddField':
        f = m['field']
        args = [pyval(m['model']), pyval(f['name']),
                'models.' + KINDS[f['kind']]]
        if 'initial' in m:
            args.append('initial=%s' % pyval(m['initial']))
        args += _mut_field_kwargs(f)
        return 'AddField(%s)' % ', '.join(args)
    if op == 'DeleteField':
        return 'DeleteField(%s, %s)' % (pyval(m['model']), pyval(m['name']))
    if op == 'RenameField':
        args = [pyval(m['model']), pyval(m['old']), pyval(m['new'])]
        if m.get('db_column'):
            args.append('db_column=%s' % pyval(m['db_column']))
        if m.get('db_table'):
            args.append('db_table=%s' % pyval(m['db_table']))
        return 'RenameField(%s)' % ', '.join(args)
    if op == 'ChangeField':
        args = [pyval(m['model']), pyval(m['name'])]
        if m.get('kind'):
            args.append('field_type=models.' + KINDS[m['kind']])
        if 'initial' in m:
            args.append('initial=%s' % pyval(m['initial']))
        else:
            args.append('initial=None')
        for k in sorted(m.get('attrs') or {}):
            args.append('%s=%s' % (k, pyval(m['attrs'][k])))
        return 'ChangeField(%s)' % ', '.join(args)
    if op == 'ChangeMeta':
        prop = m['prop']
        v = m['value']
        if prop in ('unique_together', 'index_together'):
            val = '[%s]' % ', '.join(pyval({'__tuple__': t}) for t in v)
        elif prop == 'indexes':
            val = pyval([index_mutation_value(i) for i in v])
        elif prop == 'constraints':
            val = pyval([constraint_mutation_value(c) for c in v])
        else:
            val = pyval(v)
        return 'ChangeMeta(%s, %s, %s)' % (pyval(m['model']), pyval(prop), val)
    if op == 'RenameModel':
        return 'RenameModel(%s, %s, db_table=%s)' % (
            pyval(m['old']), pyval(m['new']), pyval(m['db_table']))
    if op == 'DeleteModel':
        return 'DeleteModel(%s)' % pyval(m['model'])
    if op == 'DeleteApplication':
        return 'DeleteApplication()'
    if op == 'RenameAppLabel':
        args = [pyval(m['old']), pyval(m['new'])]
        if m.get('legacy'):
            args.append('legacy_app_label=%s' % pyval(m['legacy']))
        if m.get('model_names') is not None:
            args.append('model_names=%s' % pyval(m['model_names']))
        return 'RenameAppLabel(%s)' % ', '.join(args)
    if op == 'SQLMutation':
        if m.get('raw'):
            # no update_func: the evolution cannot be simulated
            return 'SQLMutation(%s, %s)' % (pyval(m['tag']), pyval(m['sql']))
        return 'SQLMutation(%s, %s, update_func=_noop)' % (
            pyval(m['tag']), pyval(m['sql']))
    if op == 'MoveToDjangoMigrations':
        return 'MoveToDjangoMigrations(mark_applied=%s)' % pyval(
            m.get('mark_applied', ['0001_initial']))
    raise ValueError(op)


MUTATION_NAMES = ('AddField', 'ChangeField', 'ChangeMeta', 'DeleteApplication',
                  'DeleteField', 'DeleteModel', 'MoveToDjangoMigrations',
                  'RenameAppLabel', 'RenameField', 'RenameModel',
                  'SQLMutation')


def render_evolution_file(evo):
    """evo: {'label', 'mutations': [...], 'deps': {NAME: value}}"""
    lines = ['from django.db import models',
             'from django_evolution.mutations import (%s)'
             % ', '.join(MUTATION_NAMES), '', '',
             'def _noop(simulation):', '    pass', '']
    for k in sorted(evo.get('deps') or {}):
        lines.append('%s = %s' % (k, deps_text(evo['deps'][k])))
    lines.append('')
    lines.append('MUTATIONS = [')
    for m in evo['mutations']:
        if m['op'] == 'NewModel':
            continue
        lines.append('    %s,' % render_mutation(m))
    lines.append(']')
    return '\n'.join(lines) + '\n'


def deps_text(v):
    """[[app, label]] or [app] entries -> python text with tuples."""
    items = []
    for e in v:
        if isinstance(e, list):
            items.append(pyval({'__tuple__': e}))
        else:
            items.append(pyval(e))
    return '[%s]' % ', '.join(items)


def render_evolutions_init(sequence, deps=None):
    lines = []
    for k in sorted(deps or {}):
        lines.append('%s = %s' % (k, deps_text(deps[k])))
    lines.append('SEQUENCE = %s' % pyval(list(sequence)))
    return '\n'.join(lines) + '\n'


# ---------------------------------------------------------------------------
# Semantics on specs
# ---------------------------------------------------------------------------

def meta_of(model):
    return model.setdefault('meta', {})


def fields_in_meta(model):
    """field name -> list of meta keys naming it (other than
    unique_together, which DeleteField rewrites itself)."""
    meta = model.get('meta') or {}
    out = {}

    def add(n, where):
        out.setdefault(n.lstrip('-'), []).append(where)
    for t in meta.get('index_together') or []:
        for n in t:
            add(n, 'index_together')
    for t in meta.get('unique_together') or []:
        for n in t:
            add(n, 'unique_together')
    for ix in meta.get('indexes') or []:
        for n in ix.get('fields') or []:
            add(n, 'indexes')
        for n in ix.get('include') or []:
            add(n, 'indexes')
        if ix.get('condition'):
            for n in q_fields(ix['condition']):
                add(n, 'indexes')
        for e in ix.get('expressions') or []:
            for n in expr_fields(e):
                add(n, 'indexes')
    for c in meta.get('constraints') or []:
        for n in c.get('fields') or []:
            add(n, 'constraints')
        for key in ('check', 'condition'):
            if c.get(key):
                for n in q_fields(c[key]):
                    add(n, 'constraints')
    return out


def relations_to(state, target):
    """[(app, model_name, field_name)] of fields whose 'to' is target."""
    out = []
    for a in sorted(state['apps']):
        for m in state['apps'][a]['models']:
            for f in m['fields']:
                if f.get('to') == target:
                    out.append((a, m['name'], f['name']))
    return out


def apply_mutation(state, app, mut):
    """Return a new project state = state after mutation (spec semantics).

    state: {'apps': {label: {'models': [model...]}}}
    Raises SpecError when the mutation is not valid by the generator's rules.
    """
    st = copy.deepcopy(state)
    if app not in st['apps']:
        raise SpecError('no app %s' % app)
    models = st['apps'][app]['models']
    op = mut['op']

    def need_model(name):
        m = find_model(models, name)
        if m is None:
            raise SpecError('no model %s' % name)
        return m

    if op == 'AddField':
        m = need_model(mut['model'])
        f = copy.deepcopy(mut['field'])
        if find_field(m, f['name']) or f['name'] == 'id':
            raise SpecError('field exists')
        if (f['kind'] != 'ManyToMany' and not f['attrs'].get('null')
                and mut.get('initial') is None):
            raise SpecError('non-null add without initial')
        m['fields'].append(f)
    elif op == 'DeleteField':
        m = need_model(mut['model'])
        f = find_field(m, mut['name'])
        if f is None:
            raise SpecError('no field')
        used = fields_in_meta(m).get(mut['name'], [])
        if [u for u in used if u != 'unique_together']:
            raise SpecError('field still named in Meta')
        m['fields'].remove(f)
        meta = m.get('meta') or {}
        if meta.get('unique_together'):
            new = []
            for t in meta['unique_together']:
                t2 = [n for n in t if n != mut['name']]
                if t2:
                    new.append(t2)
            meta['unique_together'] = new
    elif op == 'RenameField':
        m = need_model(mut['model'])
        f = find_field(m, mut['old'])
        if f is None:
            raise SpecError('no field')
        if find_field(m, mut['new']) or mut['new'] == 'id':
            raise SpecError('name taken')
        if fields_in_meta(m).get(mut['old']):
            raise SpecError('field named in Meta')
        f['name'] = mut['new']
        if f['kind'] == 'ManyToMany':
            if mut.get('db_table'):
                f['attrs']['db_table'] = mut['db_table']
            else:
                f['attrs'].pop('db_table', None)
        elif mut.get('db_column'):
            f['attrs']['db_column'] = mut['db_column']
        else:
            f['attrs'].pop('db_column', None)
    elif op == 'ChangeField':
        m = need_model(mut['model'])
        f = find_field(m, mut['name'])
        if f is None:
            raise SpecError('no field')
        attrs = mut.get('attrs') or {}
        for k in attrs:
            if k not in CHANGEABLE:
                raise SpecError('attr not changeable: %s' % k)
        if mut.get('kind') and mut['kind'] != f['kind']:
            f['kind'] = mut['kind']
            if mut.get('replace_attrs', True):
                f['attrs'] = dict(attrs)
            else:
                f['attrs'].update(attrs)
        else:
            f['attrs'].update(attrs)
        if ('null' in attrs and not attrs['null']
                and f['kind'] != 'ManyToMany'
                and mut.get('initial') is None):
            raise SpecError('null=False without initial')
    elif op == 'ChangeMeta':
        m = need_model(mut['model'])
        meta_of(m)[mut['prop']] = copy.deepcopy(mut['value'])
        names = {f['name'] for f in m['fields'] if f['kind'] != 'ManyToMany'}
        names.add('id')
        for n in fields_in_meta(m):
            if n not in names:
                raise SpecError('Meta names missing field %s' % n)
    elif op == 'RenameModel':
        m = need_model(mut['old'])
        if find_model(models, mut['new']):
            raise SpecError('model name taken')
        old_ref = '%s.%s' % (app, mut['old'])
        new_ref = '%s.%s' % (app, mut['new'])
        m['name'] = mut['new']
        meta_of(m)['db_table'] = mut['db_table']
        if mut['db_table'] == '%s_%s' % (app, mut['new'].lower()):
            # the target model need not pin the default name
            m['meta'].pop('db_table')
        for a in st['apps']:
            for mm in st['apps'][a]['models']:
                for ff in mm['fields']:
                    if ff.get('to') == old_ref:
                        ff['to'] = new_ref
    elif op == 'DeleteModel':
        m = need_model(mut['model'])
        ref = '%s.%s' % (app, mut['model'])
        for (a, mn, fn) in relations_to(st, ref):
            if not (a == app and mn == mut['model']):
                raise SpecError('model still referenced')
        models.remove(m)
    elif op == 'DeleteApplication':
        for m in list(models):
            ref = '%s.%s' % (app, m['name'])
            for (a, mn, fn) in relations_to(st, ref):
                if a != app:
                    raise SpecError('app still referenced')
        del models[:]
    elif op in ('SQLMutation', 'MoveToDjangoMigrations'):
        pass
    elif op == 'NewModel':
        # not a mutation: the model simply appears in the next version and
        # the evolver creates it ("new models")
        if find_model(models, mut['model']['name']):
            raise SpecError('model exists')
        models.append(copy.deepcopy(mut['model']))
    elif op == 'RenameAppLabel':
        # handled at project level by the generator (label of the app
        # changes; tables pinned).  State keyed by *current* label.
        old, new = mut['old'], mut['new']
        if new in st['apps'] and new != old:
            raise SpecError('label taken')
        appst = st['apps'].pop(app)
        for m in appst['models']:
            # pin table names so that the rename changes nothing on disk
            meta_of(m).setdefault('db_table', '%s_%s' % (old,
                                                         m['name'].lower()))
        st['apps'][new] = appst
        for a in st['apps']:
            for mm in st['apps'][a]['models']:
                for ff in mm['fields']:
                    if ff.get('to', '').startswith(old + '.'):
                        ff['to'] = new + '.' + ff['to'].split('.', 1)[1]
    else:
        raise SpecError('unknown op %s' % op)
    return st


def apply_mutations(state, app, muts):
    for m in muts:
        state = apply_mutation(state, app, m)
    return state


def validate_state(state):
    """Django-level validity of a project state (appendix A)."""
    names = set()
    tables = set()
    for a in sorted(state['apps']):
        for m in state['apps'][a]['models']:
            for prop_ in ('unique_together', 'index_together'):
                tl_ = [list(t_) for t_ in (m.get('meta') or {}).get(prop_)
                       or []]
                if any(tl_.count(t_) > 1 for t_ in tl_):
                    raise SpecError('duplicate %s entry' % prop_)
            t = table_name(a, m)
            if t in tables:
                raise SpecError('duplicate table %s' % t)
            tables.add(t)
            fnames = {f['name'] for f in m['fields']}
            if len(fnames) != len(m['fields']):
                raise SpecError('duplicate field')
            cols = set()
            for f in m['fields']:
                if f['kind'] == 'ManyToMany':
                    mt = m2m_table(a, m, f)
                    if mt in tables:
                        raise SpecError('duplicate table %s' % mt)
                    tables.add(mt)
                else:
                    c = column_name(f)
                    if c in cols or c == 'id':
                        raise SpecError('duplicate column %s' % c)
                    cols.add(c)
                if f['kind'] in REL_KINDS:
                    ta, tm = f['to'].split('.')
                    if (ta not in state['apps'] or not
                            find_model(state['apps'][ta]['models'], tm)):
                        raise SpecError('dangling relation %s' % f['to'])
            plain = {f['name'] for f in m['fields']
                     if f['kind'] != 'ManyToMany'} | {'id'}
            for n in fields_in_meta(m):
                if n not in plain:
                    raise SpecError('Meta names missing field %s' % n)
            meta = m.get('meta') or {}
            unnamed = set()
            for ix in meta.get('indexes') or []:
                if ix.get('name'):
                    if ix['name'] in names:
                        raise SpecError('duplicate index name')
                    names.add(ix['name'])
                else:
                    key = tuple(ix.get('fields') or [])
                    if key in unnamed:
                        raise SpecError('duplicate auto-named index')
                    unnamed.add(key)
            for c in meta.get('constraints') or []:
                if c['name'] in names:
                    raise SpecError('duplicate constraint name')
                names.add(c['name'])
    return True


def normalised_models(models):
    """Model specs with attributes stated at their default value dropped
    (null=False, unique=False, db_index=False on non-relations ...): two
    spec lists describing the same Django models compare equal."""
    out = copy.deepcopy(models)
    for m in out:
        for f in m['fields']:
            a = f['attrs']
            for k, dflt in (('null', False), ('unique', False),
                            ('db_column', None), ('db_table', None)):
                if k in a and a[k] == dflt:
                    del a[k]
            if 'db_index' in a and a['db_index'] == (f['kind'] in FK_KINDS):
                del a['db_index']
        meta = m.get('meta') or {}
        for k in list(meta):
            if not meta[k]:
                del meta[k]
        m['meta'] = meta
    return out


# ---------------------------------------------------------------------------
# Django migration files rendered from specs (C10)
# ---------------------------------------------------------------------------

def render_migration_field(field):
    kind = field['kind']
    cls = 'models.' + KINDS[kind]
    args = []
    if kind in REL_KINDS:
        args.append('to=%s' % pyval(field['to']))
    if kind in FK_KINDS:
        args.append('on_delete=models.CASCADE')
    for k, v in field_kwargs(field):
        args.append('%s=%s' % (k, v))
    if kind in REL_KINDS:
        args.append("related_name='+'")
    return '%s(%s)' % (cls, ', '.join(args))


def render_migration(dependencies, operations, initial=False):
    lines = ['from django.db import migrations, models', '', '',
             'class Migration(migrations.Migration):', '']
    if initial:
        lines.append('    initial = True')
        lines.append('')
    lines.append('    dependencies = [%s]' % ', '.join(
        pyval({'__tuple__': d}) for d in dependencies))
    lines.append('')
    lines.append('    operations = [')
    for op in operations:
        if op['op'] == 'CreateModel':
            m = op['model']
            lines.append('        migrations.CreateModel(')
            lines.append('            name=%s,' % pyval(m['name']))
            lines.append('            fields=[')
            lines.append("                ('id', models.AutoField("
                         "auto_created=True, primary_key=True, "
                         "serialize=False, verbose_name='ID')),")
            for f in m['fields']:
                lines.append('                (%s, %s),' % (
                    pyval(f['name']), render_migration_field(f)))
            lines.append('            ],')
            opts = {}
            if (m.get('meta') or {}).get('db_table'):
                opts['db_table'] = m['meta']['db_table']
            if opts:
                lines.append('            options=%s,' % pyval(opts))
            lines.append('        ),')
        elif op['op'] == 'AddField':
            f = op['field']
            default = ''
            if not f['attrs'].get('null') and f['kind'] != 'ManyToMany':
                default = ', preserve_default=False'
                ff = copy.deepcopy(f)
                text = render_migration_field(ff)[:-1]
                text += (', ' if not text.endswith('(') else '') + \
                    'default=%s)' % pyval(op.get('default', 0))
            else:
                text = render_migration_field(f)
            lines.append('        migrations.AddField(model_name=%s, '
                         'name=%s, field=%s%s),' % (
                             pyval(op['model'].lower()), pyval(f['name']),
                             text, default))
        elif op['op'] == 'DeleteModel':
            lines.append('        migrations.DeleteModel(name=%s),'
                         % pyval(op['name']))
        else:
            raise ValueError(op['op'])
    lines.append('    ]')
    return '\n'.join(lines) + '\n'
