"""Zygote: started by the driver with an explicit PYTHONHASHSEED; imports
Django's framework modules once, then serves run requests by fork().

Protocol (line-delimited JSON on stdin/stdout):
  request  {"req": {...child request...}, "timeout": seconds}
  reply    {"exit": code|null, "timeout": bool}
"""
import json
import os
import signal
import sys
import time


PRELOAD = """
django django.apps django.conf django.db django.db.models django.db.migrations
django.db.migrations.executor django.db.migrations.recorder
django.db.migrations.loader django.db.migrations.autodetector
django.db.migrations.questioner django.db.migrations.writer
django.db.backends.sqlite3.base django.db.backends.sqlite3.schema
django.db.backends.sqlite3.introspection django.db.backends.mysql.schema
django.db.models.sql.compiler django.db.models.functions
django.core.management django.core.management.commands.migrate
django.core.management.sql django.core.management.color
django.dispatch django.utils.timezone django.urls django.http
django.core.mail django.core.signing django.core.paginator
django.core.serializers.json django.core.serializers.python
django.core.files.uploadedfile django.core.files.uploadhandler
django.middleware.csrf django.template.response django.utils.cache
django.utils.decorators django.utils.log django.utils.translation.reloader
django.views.generic django.views.decorators.debug
django.contrib.auth.hashers django.contrib.auth.password_validation
django.contrib.auth.signals django.contrib.auth.validators
django.contrib.contenttypes.apps django.contrib.contenttypes.checks
logging.config logging.handlers mimetypes optparse socketserver
sqlparse sqlite3 pickle copy textwrap collections itertools
""".split()


def preload():
    # Bytecode comes from PYTHONPYCACHEPREFIX (filled once per check by
    # runner.prepare_bytecode; validated against source mtime by the
    # importer, so edits to the repo are always picked up).  Nothing writes
    # bytecode from here on: generated project files are rewritten within
    # one mtime tick and must never be cached.
    import importlib
    for name in PRELOAD:
        try:
            importlib.import_module(name)
        except Exception:
            pass
    sys.dont_write_bytecode = True


def serve():
    here = os.path.dirname(os.path.dirname(os.path.abspath(__file__)))
    if here not in sys.path:
        sys.path.insert(0, here)
    preload()
    from evosim import child
    # import the optional op modules so that OPS is complete
    from evosim import child_ops  # noqa
    out = sys.stdout
    out.write(json.dumps({'ready': True,
                          'hashseed': os.environ.get('PYTHONHASHSEED')})
              + '\n')
    out.flush()
    for line in sys.stdin:
        line = line.strip()
        if not line:
            continue
        msg = json.loads(line)
        if msg.get('quit'):
            break
        req = msg['req']
        timeout = msg.get('timeout', 60)
        pid = os.fork()
        if pid == 0:
            try:
                # the child must not talk on the zygote's pipes
                devnull = os.open(os.devnull, os.O_RDWR)
                os.dup2(devnull, 0)
                os.dup2(devnull, 1)
                if not req.get('keep_stderr'):
                    os.dup2(devnull, 2)
                child.run_request(req)
            finally:
                os._exit(4)
        deadline = time.monotonic() + timeout
        status = None
        timed_out = False
        while True:
            wpid, st = os.waitpid(pid, os.WNOHANG)
            if wpid == pid:
                status = st
                break
            if time.monotonic() > deadline:
                timed_out = True
                try:
                    os.kill(pid, signal.SIGKILL)
                except OSError:
                    pass
                os.waitpid(pid, 0)
                break
            time.sleep(0.002)
        code = None
        if status is not None:
            if os.WIFEXITED(status):
                code = os.WEXITSTATUS(status)
            else:
                code = -os.WTERMSIG(status)
        out.write(json.dumps({'exit': code, 'timeout': timed_out}) + '\n')
        out.flush()


if __name__ == '__main__':
    serve()
