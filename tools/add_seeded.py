#!/venv/bin/python
"""tools/add_seeded.py <worktree> <seeded id> <property> '<needs>' '<caught_by json>'
copies a confirmed seeded change into /verif/seeded/<id>/"""
import json, os, shutil, subprocess, sys
wt, sid, prop, needs, caught = sys.argv[1:6]
d = os.path.join('/verif/seeded', sid)
os.makedirs(d, exist_ok=True)
diff = subprocess.check_output(['git', '-C', wt, 'diff', '--', 'django_evolution']).decode()
open(os.path.join(d, 'patch.diff'), 'w').write(diff)
for f in ('demo.py', 'NOTES.md'):
    if os.path.exists(os.path.join(wt, f)):
        shutil.copy(os.path.join(wt, f), os.path.join(d, f))
ok = subprocess.call(['git', '-C', '/repo', 'apply', '--check', os.path.join(d, 'patch.diff')]) == 0
meta = {
    'id': sid, 'property': prop, 'needs': needs,
    'patch_applies_to_repo_head': ok,
    'confirmed': 'suite 596 passed with the change; demo.py exits 1 with the change and 0 without (tools/confirm_mutant.sh)',
    'caught_by': json.loads(caught),
    'author': 'independent sub-agent given only the property text and a scratch worktree',
}
json.dump(meta, open(os.path.join(d, 'meta.json'), 'w'), indent=1)
print(sid, 'applies:', ok)
