#!/bin/bash
# usage: tools/confirm_mutant.sh <worktree> <name> "<check ids>"
# confirms a seeded change (suite green, demo FAIL with / PASS without) and
# runs the named quick checks against the worktree
WT=$1; NAME=$2; CHECKS=$3
cd $WT || exit 2
git diff -- django_evolution > /tmp/mut/$NAME.diff
echo "== diff lines: $(wc -l < /tmp/mut/$NAME.diff)"
echo "== suite with change"; /venv/bin/python -m pytest -q -p no:cacheprovider --timeout=900 2>&1 | grep -E "passed|failed" 
echo "== demo with change"; timeout 300 /venv/bin/python demo.py > /tmp/mut/$NAME.with.log 2>&1; echo "exit $?"; tail -2 /tmp/mut/$NAME.with.log
git apply -R /tmp/mut/$NAME.diff   # (git stash is shared between worktrees: not used)
echo "== demo without change"; timeout 300 /venv/bin/python demo.py > /tmp/mut/$NAME.without.log 2>&1; echo "exit $?"; tail -2 /tmp/mut/$NAME.without.log
git apply /tmp/mut/$NAME.diff
cd /verif
for c in $CHECKS; do
  echo "== check $c against mutant"
  EVOSIM_NO_EVIDENCE=1 /venv/bin/python -m evosim check $c --repo $WT 2>&1 | grep -E "^VIOLATION|^  rule=|seed=" | cut -c1-400 | head -8
done
