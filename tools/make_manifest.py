#!/usr/bin/env python
"""Regenerate /verif/MANIFEST.json from the property modules present."""
import importlib
import json
import os
import sys

HERE = os.path.dirname(os.path.dirname(os.path.abspath(__file__)))
sys.path.insert(0, HERE)

ALL = ['C%02d' % i for i in range(1, 19)]

NOT_APPLICABLE = {}


def main():
    checks = []
    na = []
    for pid in ALL:
        path = os.path.join(HERE, 'evosim', 'props', pid.lower() + '.py')
        if not os.path.exists(path):
            na.append({'property_id': pid,
                       'reason': NOT_APPLICABLE.get(
                           pid, 'check not built yet in this round; see '
                           'DESIGN.md section 6 for the planned simulation')})
            continue
        mod = importlib.import_module('evosim.props.' + pid.lower())
        checks.append({
            'property_id': pid,
            'quick_cmd': '/venv/bin/python -m evosim check %s --tier quick'
                         % pid,
            'thorough_cmd': '/venv/bin/python -m evosim check %s --tier '
                            'thorough' % pid,
            'evidence_file': 'evidence/%s.json' % pid,
            'replay_cmd_template': '/venv/bin/python -m evosim replay {path}',
            'engine': 'evosim',
            'level_claimed': {
                'category': mod.LEVEL,
                'text': mod.LEVEL_TEXT,
                'design_ref': 'DESIGN.md section 6, ' + pid,
            },
            'level_note': '; '.join(mod.ASSUMPTIONS),
            'technique': mod.TECHNIQUE,
        })
    manifest = {
        'version': 1,
        'setup_cmd': '/venv/bin/python -m evosim setup',
        'hooks': {
            'guard': 'DJANGO_EVOLUTION_VERIF',
            'enable': 'no source hooks are needed: every seam is public API '
                      '(connection.execute_wrapper, django_evolution.signals, '
                      'settings, sys.path, django.utils.timezone.now); checks '
                      'import django_evolution straight from /repo',
            'baseline_off_cmd': 'cd /repo && /venv/bin/python -m pytest -ra '
                                '-q -p no:cacheprovider --timeout=900 '
                                '--continue-on-collection-errors',
            'source_commits': [],
            'add_only': True,
        },
        'engines': [{
            'name': 'evosim',
            'path': 'evosim',
            'serves_properties': [c['property_id'] for c in checks],
            'kind_free_text': 'deterministic lifecycle simulator: seeded '
                              'generator of projects / evolutions / histories '
                              'with faults, one real process per run step, '
                              'SQL + signal + clock + hash-seed seams, '
                              'sqlite3-only observer, reference models, '
                              'minimiser and replay files',
        }],
        'checks': checks,
        'not_applicable': na,
        'notes': 'See DESIGN.md. known_findings.json lists recorded defects '
                 '(open) and repaired ones (fixed:).',
    }
    with open(os.path.join(HERE, 'MANIFEST.json'), 'w') as fp:
        json.dump(manifest, fp, indent=1)
        fp.write('\n')
    print('checks:', [c['property_id'] for c in checks])


if __name__ == '__main__':
    main()
