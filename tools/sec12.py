#!/venv/bin/python
"""tools/sec12.py - print the table of DESIGN.md section 12 from
seeded/*/meta.json (markdown)."""
import json, os, sys
root = '/verif/seeded'
rows = []
for sid in sorted(os.listdir(root), key=lambda x: (x.split('-')[1], x)):
    m = json.load(open(os.path.join(root, sid, 'meta.json')))
    caught = ', '.join(c['property'] for c in m.get('caught_by', []))
    rows.append('| %s | %s | %s | %s | %s | %s |' % (
        sid, m['property'], m['needs'].replace('|', '/')[:230],
        caught, m.get('rules_that_fire', ''),
        m.get('history', '').replace('|', '/')))
print('| id | property | needs | caught by (quick) | rules that fire | history |')
print('|---|---|---|---|---|---|')
print('\n'.join(rows))
