#!/bin/bash
# usage: tools/soak.sh "<seeds>" "<props>" [tier]
# runs checks on several seeds and prints only verdict lines
SEEDS=${1:-"11 12 13"}
PROPS=${2:-"C01 C02 C03 C04 C05 C06 C07 C08 C09 C10 C11 C12 C13 C14 C15 C16 C17 C18"}
TIER=${3:-quick}
for p in $PROPS; do
  for s in $SEEDS; do
    EVOSIM_NO_EVIDENCE=1 /venv/bin/python -m evosim check $p --seed $s --tier $TIER 2>&1 | grep -E "^VIOLATION|^  rule=|seed=|HARNESS" | cut -c1-900
  done
done
